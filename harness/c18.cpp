// C18 correspondence harness: runs the real fcppt ranges / iterators on the operation lines described in
// lean/FcpptModel/Drv/C18.lean and prints the same canonical result lines.
// Every loop over an implementation-produced range is capped (prints `overrun`).
#include "common/vh.hpp"

#include <fcppt/cyclic_iterator.hpp>
#include <fcppt/int_range_impl.hpp>
#include <fcppt/literal.hpp>
#include <fcppt/make_int_range.hpp>
#include <fcppt/make_int_range_count.hpp>
#include <fcppt/make_literal_strong_typedef.hpp>
#include <fcppt/make_strong_typedef.hpp>
#include <fcppt/strong_typedef.hpp>
#include <fcppt/tag.hpp>
#include <fcppt/algorithm/loop.hpp>
#include <fcppt/algorithm/loop_break_mpl.hpp>
#include <fcppt/cast/enum_to_int.hpp>
#include <fcppt/cast/int_to_enum.hpp>
#include <fcppt/container/grid/make_spiral_range.hpp>
#include <fcppt/container/grid/moore_neighbors.hpp>
#include <fcppt/container/grid/neumann_neighbors.hpp>
#include <fcppt/container/grid/pos.hpp>
#include <fcppt/enum/make_range.hpp>
#include <fcppt/enum/make_range_start.hpp>
#include <fcppt/enum/make_range_start_end.hpp>
#include <fcppt/enum/range_impl.hpp>
#include <fcppt/enum/size_type.hpp>
#include <fcppt/iterator/adapt_range.hpp>
#include <fcppt/iterator/make_range.hpp>
#include <fcppt/iterator/range_impl.hpp>
#include <fcppt/math/int_range_count.hpp>
#include <fcppt/range/size.hpp>
#include <fcppt/type_iso/strong_typedef.hpp>
#include <fcppt/type_iso/undecorate.hpp>

#include <cstdint>
#include <iterator>
#include <limits>
#include <list>
#include <string>
#include <type_traits>
#include <vector>

namespace
{
constexpr std::size_t cap = 300;
constexpr std::size_t spiral_cap = 5000;

FCPPT_MAKE_STRONG_TYPEDEF(std::int8_t, si8);
FCPPT_MAKE_STRONG_TYPEDEF(std::uint8_t, su8);
FCPPT_MAKE_STRONG_TYPEDEF(std::int32_t, si32);
FCPPT_MAKE_STRONG_TYPEDEF(std::uint32_t, su32);

std::string i128_str(__int128 v)
{
  if (v == 0)
    return "0";
  bool const neg = v < 0;
  unsigned __int128 u = neg ? -static_cast<unsigned __int128>(v) : static_cast<unsigned __int128>(v);
  std::string r;
  while (u != 0)
  {
    r.insert(r.begin(), static_cast<char>('0' + static_cast<int>(u % 10)));
    u /= 10;
  }
  return neg ? "-" + r : r;
}

template <typename T>
std::string num(T const v)
{
  if constexpr (std::is_same_v<T, __int128>)
    return i128_str(v);
  else if constexpr (std::is_signed_v<T>)
    return std::to_string(static_cast<long long>(v));
  else
    return std::to_string(static_cast<unsigned long long>(v));
}

__int128 parse(std::string const &s)
{
  bool const neg = !s.empty() && s[0] == '-';
  __int128 r = 0;
  std::size_t i = neg ? 1 : 0;
  if (i >= s.size())
    throw std::invalid_argument("num");
  for (; i < s.size(); ++i)
  {
    if (s[i] < '0' || s[i] > '9')
      throw std::invalid_argument("num");
    r = r * 10 + (s[i] - '0');
    if (r > (static_cast<__int128>(1) << 100))
      throw std::invalid_argument("num");
  }
  return neg ? -r : r;
}

template <typename U>
bool fits(__int128 const v)
{
  return v >= static_cast<__int128>(std::numeric_limits<U>::min()) &&
         v <= static_cast<__int128>(std::numeric_limits<U>::max());
}

std::string join_str(std::vector<std::string> const &v)
{
  if (v.empty())
    return "-";
  std::string r;
  for (std::size_t i = 0; i < v.size(); ++i)
  {
    if (i != 0)
      r += ',';
    r += v[i];
  }
  return r;
}

// ------------------------------------------------------------------ int_range

// Int: the range's element type, U: its undecorated (fundamental) type
template <typename Int, typename U, bool Strong>
std::string range_line(fcppt::int_range<Int> const &r, __int128 const b, __int128 const e)
{
  static_assert(std::is_same_v<typename fcppt::int_range<Int>::size_type, U>);
  std::vector<U> vals;
  vals.reserve(cap);
  bool overrun = false;
  for (Int const v : r)
  {
    if (vals.size() == cap)
    {
      overrun = true;
      break;
    }
    vals.push_back(fcppt::type_iso::undecorate(v));
  }
  std::string res = "overrun";
  if (!overrun)
  {
    std::vector<std::string> out;
    for (U const v : vals)
      out.push_back(num(v));
    res = "n=" + std::to_string(out.size()) + " e=" + join_str(out);
  }
  // size(): for int / long the subtraction end_ - begin_ is undefined when it overflows; the harness does not execute
  // undefined behaviour (the model reports the same condition as a fault) - see op `irub` for the real call.
  __int128 const cnt = e < b ? 0 : e - b;
  bool const ub = std::is_signed_v<U> && sizeof(U) >= sizeof(int) && cnt > static_cast<__int128>(std::numeric_limits<U>::max());
  res += " size=" + (ub ? std::string("ub") : num(r.size()));
  std::string rs = "-";
  if constexpr (std::is_signed_v<U> && !Strong)
  {
    if (!overrun)
      rs = num(fcppt::range::size(r));
  }
  return res + " rs=" + rs;
}

template <typename Int, typename U, bool Strong>
std::string ir_line(__int128 const b, __int128 const e)
{
  if (!fits<U>(b) || !fits<U>(e))
    return "bad-op";
  return range_line<Int, U, Strong>(fcppt::make_int_range(Int(static_cast<U>(b)), Int(static_cast<U>(e))), b, e);
}

template <typename Int, typename U, bool Strong>
std::string ir_ops(std::vector<std::string> const &t)
{
  if (t[0] == "ir" && t.size() == 4)
    return ir_line<Int, U, Strong>(parse(t[2]), parse(t[3]));
  if (t[0] == "irub" && t.size() == 4)
  {
    // the real size() call, whatever it does (UBSan reports the overflow)
    __int128 const b = parse(t[2]), e = parse(t[3]);
    if (!fits<U>(b) || !fits<U>(e))
      return "bad-op";
    return "size=" + num(fcppt::make_int_range(Int(static_cast<U>(b)), Int(static_cast<U>(e))).size());
  }
  if (t[0] == "irc" && t.size() == 3)
  {
    __int128 const n = parse(t[2]);
    if (!fits<U>(n))
      return "bad-op";
    return range_line<Int, U, Strong>(fcppt::make_int_range_count(Int(static_cast<U>(n))), 0, n);
  }
  if (t[0] == "irs" && t.size() == 3)
  {
    if constexpr (sizeof(U) <= 2)
    {
      __int128 const b = parse(t[2]);
      if (!fits<U>(b))
        return "bad-op";
      std::uint64_t h = vh::fnv_init;
      for (int e = std::numeric_limits<U>::min(); e <= std::numeric_limits<U>::max(); ++e)
        h = vh::fnv(h, ir_line<Int, U, Strong>(b, e));
      return "D " + vh::hex64(h);
    }
    else
      return "bad-op";
  }
  return "bad-op";
}

std::string ir_dispatch(std::vector<std::string> const &t)
{
  if (t.size() < 3)
    return "bad-op";
  std::string const &ty = t[1];
  if (ty == "i8") return ir_ops<std::int8_t, std::int8_t, false>(t);
  if (ty == "u8") return ir_ops<std::uint8_t, std::uint8_t, false>(t);
  if (ty == "i16") return ir_ops<std::int16_t, std::int16_t, false>(t);
  if (ty == "u16") return ir_ops<std::uint16_t, std::uint16_t, false>(t);
  if (ty == "i32") return ir_ops<std::int32_t, std::int32_t, false>(t);
  if (ty == "u32") return ir_ops<std::uint32_t, std::uint32_t, false>(t);
  if (ty == "i64") return ir_ops<std::int64_t, std::int64_t, false>(t);
  if (ty == "u64") return ir_ops<std::uint64_t, std::uint64_t, false>(t);
  if (ty == "si8") return ir_ops<si8, std::int8_t, true>(t);
  if (ty == "su8") return ir_ops<su8, std::uint8_t, true>(t);
  if (ty == "si32") return ir_ops<si32, std::int32_t, true>(t);
  if (ty == "su32") return ir_ops<su32, std::uint32_t, true>(t);
  return "bad-op";
}

// ------------------------------------------------------------------ enum ranges

enum class e1 { v0, fcppt_maximum = v0 };
enum class e2 : std::uint8_t { v0, v1, fcppt_maximum = v1 };
enum class e3 { v0, v1, v2, fcppt_maximum = v2 };
enum class e4 : signed char { v0, v1, v2, v3, fcppt_maximum = v3 };
enum class e5 : std::uint16_t { v0, v1, v2, v3, v4, fcppt_maximum = v4 };
enum class e6 : std::uint32_t { v0, v1, v2, v3, v4, v5, fcppt_maximum = v5 };
enum class e7 : std::int64_t { v0, v1, v2, v3, v4, v5, v6, fcppt_maximum = v6 };
enum class e8 : short { v0, v1, v2, v3, v4, v5, v6, v7, fcppt_maximum = v7 };
enum class e9 : std::uint8_t { v0, v1, v2, v3, v4, v5, v6, v7, v8, fcppt_maximum = v8 };
// the boundary of the size_type: 256 enumerators over an 8-bit type
enum class e256 : std::uint8_t { v0 = 0, fcppt_maximum = 255 };

template <typename E>
std::string enum_line(fcppt::enum_::range<E> const &r)
{
  std::vector<std::string> out;
  bool overrun = false;
  for (E const v : r)
  {
    if (out.size() == cap)
    {
      overrun = true;
      break;
    }
    out.push_back(num(fcppt::cast::enum_to_int<fcppt::enum_::size_type<E>>(v)));
  }
  return (overrun ? std::string("overrun") : "n=" + std::to_string(out.size()) + " e=" + join_str(out)) +
         " size=" + num(r.size());
}

template <typename E, unsigned N>
std::string enum_ops(std::vector<std::string> const &t)
{
  using st = fcppt::enum_::size_type<E>;
  if (vh::to_ull(t[2]) != sizeof(st) * 8U)
    return "bad-op";
  auto const en = [](unsigned long long const i) { return fcppt::cast::int_to_enum<E>(static_cast<st>(i)); };
  if (t[0] == "er" && t.size() == 5)
  {
    auto const s = vh::to_ull(t[3]), e = vh::to_ull(t[4]);
    if (s >= N || e >= N)
      return "bad-op";
    return enum_line<E>(fcppt::enum_::make_range_start_end(en(s), en(e)));
  }
  if (t[0] == "ers" && t.size() == 4)
  {
    auto const s = vh::to_ull(t[3]);
    if (s >= N)
      return "bad-op";
    return enum_line<E>(fcppt::enum_::make_range_start(en(s)));
  }
  if (t[0] == "era" && t.size() == 3)
    return enum_line<E>(fcppt::enum_::make_range<E>());
  return "bad-op";
}

std::string enum_dispatch(std::vector<std::string> const &t)
{
  if (t.size() < 3)
    return "bad-op";
  switch (vh::to_ull(t[1]))
  {
  case 1: return enum_ops<e1, 1>(t);
  case 2: return enum_ops<e2, 2>(t);
  case 3: return enum_ops<e3, 3>(t);
  case 4: return enum_ops<e4, 4>(t);
  case 5: return enum_ops<e5, 5>(t);
  case 6: return enum_ops<e6, 6>(t);
  case 7: return enum_ops<e7, 7>(t);
  case 8: return enum_ops<e8, 8>(t);
  case 9: return enum_ops<e9, 9>(t);
  case 256: return enum_ops<e256, 256>(t);
  default: return "bad-op";
  }
}

// ------------------------------------------------------------------ containers: element k is 3k+1

template <typename C>
C make_container(std::size_t const len)
{
  C c;
  for (std::size_t k = 0; k < len; ++k)
    c.push_back(static_cast<int>(3 * k + 1));
  return c;
}

// ------------------------------------------------------------------ cyclic iterator

using ivec = std::vector<int>;
using ilist = std::list<int>;

std::string cyc_line(std::vector<std::string> const &t)
{
  if (t.size() != 6)
    return "bad-op";
  long long const len = vh::to_ll(t[1]), f = vh::to_ll(t[2]), s = vh::to_ll(t[3]), start = vh::to_ll(t[4]), k = vh::to_ll(t[5]);
  if (!(0 <= f && f < s && s <= len && f <= start && start < s && len <= 64))
    return "bad-op";
  ivec const v{make_container<ivec>(static_cast<std::size_t>(len))};
  using iterator = fcppt::cyclic_iterator<ivec::const_iterator>;
  iterator const it0{v.begin() + start, iterator::boundary{v.begin() + f, v.begin() + s}};
  iterator const a{it0 + k};
  iterator b{it0};
  b += k;
  iterator const c{it0 - (-k)};
  iterator d{it0};
  d -= -k;
  iterator const e{k + it0};
  bool const alt = a == b && a == c && a == d && a == e && a.get() == b.get() && a.get() == c.get() && a.get() == d.get() && a.get() == e.get();
  iterator st{it0};
  for (long long i = 0; i < (k < 0 ? -k : k); ++i)
  {
    if (k < 0)
      --st;
    else
      ++st;
  }
  auto const idx = [&v](iterator const &i) { return static_cast<long long>(i.get() - v.begin()); };
  bool const inb = f <= idx(a) && idx(a) < s && f <= idx(st) && idx(st) < s;
  // dereference only inside the container
  std::string const val = (0 <= idx(a) && idx(a) < len) ? std::to_string(*a) : "outside";
  return "adv=" + std::to_string(idx(a)) + " val=" + val + " alt=" + (alt ? "1" : "0") + " steps=" + std::to_string(idx(st)) +
         " inb=" + (inb ? "1" : "0") + " dist=" + std::to_string(static_cast<long long>(a - it0));
}

template <typename C, bool RandomAccess>
std::string cycw_line(std::vector<std::string> const &t)
{
  long long const len = vh::to_ll(t[2]), f = vh::to_ll(t[3]), s = vh::to_ll(t[4]), start = vh::to_ll(t[5]);
  if (!(0 <= f && f < s && s <= len && f <= start && start < s && len <= 64))
    return "bad-op";
  C const c{make_container<C>(static_cast<std::size_t>(len))};
  using iterator = fcppt::cyclic_iterator<typename C::const_iterator>;
  auto const at = [&c](long long const i) { return std::next(c.begin(), i); };
  iterator it{at(start), typename iterator::boundary{at(f), at(s)}};
  auto const idx = [&c](iterator const &i) { return std::to_string(static_cast<long long>(std::distance(c.begin(), i.get()))); };
  std::vector<std::string> tr;
  for (std::size_t k = 6; k < t.size(); ++k)
  {
    std::string const &o = t[k];
    char const ch = o[0];
    if ((ch == '+' || ch == '-' || ch == 'p' || ch == 'm') && o.size() == 1)
    {
      if (ch == '+') { ++it; tr.push_back(idx(it)); }
      else if (ch == '-') { --it; tr.push_back(idx(it)); }
      else if (ch == 'p') { iterator const old{it++}; tr.push_back(idx(old) + ">" + idx(it)); }
      else { iterator const old{it--}; tr.push_back(idx(old) + ">" + idx(it)); }
    }
    else if ((ch == 'a' || ch == 's' || ch == 'i') && o.size() > 1)
    {
      if constexpr (RandomAccess)
      {
        long long const n = vh::to_ll(o.substr(1));
        if (ch == 'a') { it += n; tr.push_back(idx(it)); }
        else if (ch == 's') { it -= n; tr.push_back(idx(it)); }
        else tr.push_back("v" + std::to_string(it[n]));
      }
      else
        return "bad-op";
    }
    else
      return "bad-op";
  }
  return join_str(tr);
}

// ------------------------------------------------------------------ grid: spiral, neighbours

template <typename T>
std::string pos_str(fcppt::container::grid::pos<T, 2> const &p)
{
  return num(p.x()) + ":" + num(p.y());
}

template <typename T>
std::string sp_line(std::vector<std::string> const &t)
{
  __int128 const x = parse(t[2]), y = parse(t[3]), d = parse(t[4]);
  // keep the walk far away from the limits of T (the model computes in unbounded integers)
  __int128 const lim = static_cast<__int128>(std::numeric_limits<T>::max()) - 20000;
  if (x > lim || x < -lim || y > lim || y < -lim || d > 10000 || d < -10000)
    return "bad-op";
  using pos = fcppt::container::grid::pos<T, 2>;
  std::vector<std::string> out;
  for (pos const p : fcppt::container::grid::make_spiral_range(pos(static_cast<T>(x), static_cast<T>(y)), static_cast<T>(d)))
  {
    if (out.size() == spiral_cap)
      return "overrun";
    out.push_back(pos_str(p));
  }
  return "n=" + std::to_string(out.size()) + " p=" + join_str(out);
}

template <typename T>
std::string nb_line(std::vector<std::string> const &t)
{
  __int128 const x = parse(t[2]), y = parse(t[3]);
  if (!fits<T>(x) || !fits<T>(y))
    return "bad-op";
  using pos = fcppt::container::grid::pos<T, 2>;
  pos const p(static_cast<T>(x), static_cast<T>(y));
  std::vector<std::string> a, b;
  for (pos const &q : fcppt::container::grid::neumann_neighbors(p))
    a.push_back(pos_str(q));
  for (pos const &q : fcppt::container::grid::moore_neighbors(p))
    b.push_back(pos_str(q));
  return "neu=" + join_str(a) + " moo=" + join_str(b);
}

// ------------------------------------------------------------------ iterator::range, adapt_range, range::size

template <typename R>
std::string range_elems(R const &r)
{
  std::vector<std::string> out;
  for (auto it = r.begin(); it != r.end(); ++it)
  {
    if (out.size() == cap)
      return "overrun";
    out.push_back(std::to_string(*it));
  }
  return "n=" + std::to_string(out.size()) + " e=" + join_str(out);
}

template <typename C>
std::string itr_line(std::vector<std::string> const &t)
{
  unsigned long long const len = vh::to_ull(t[2]), i = vh::to_ull(t[3]), j = vh::to_ull(t[4]);
  if (!(i <= j && j <= len && len <= 256))
    return "bad-op";
  C c{make_container<C>(len)};
  // alternate between the constructor, make_range and const / non-const iterators
  if ((i + j) % 2U == 0U)
  {
    auto const r = fcppt::iterator::make_range(std::next(c.begin(), static_cast<long>(i)), std::next(c.begin(), static_cast<long>(j)));
    return range_elems(r) + " size=" + num(fcppt::range::size(r));
  }
  fcppt::iterator::range<typename C::const_iterator> const r{std::next(c.cbegin(), static_cast<long>(i)), std::next(c.cbegin(), static_cast<long>(j))};
  return range_elems(r) + " size=" + num(fcppt::range::size(r));
}

template <typename C>
std::string adr_line(std::vector<std::string> const &t)
{
  unsigned long long const len = vh::to_ull(t[2]);
  if (len > 256)
    return "bad-op";
  C c{make_container<C>(len)};
  C const &cc{c};
  auto const r1 = fcppt::iterator::adapt_range(c);
  auto const r2 = fcppt::iterator::adapt_range(cc);
  static_assert(std::is_same_v<decltype(r1.begin()), typename C::iterator>);
  static_assert(std::is_same_v<decltype(r2.begin()), typename C::const_iterator>);
  std::string const a = range_elems(r1) + " size=" + num(fcppt::range::size(r1));
  std::string const b = range_elems(r2) + " size=" + num(fcppt::range::size(r2));
  bool const same_ends = r1.begin() == c.begin() && r1.end() == c.end() && r2.begin() == cc.begin() && r2.end() == cc.end();
  return a == b && same_ends ? a : "adapt-range-inconsistent " + a + " | " + b;
}

template <std::size_t N>
std::string mirc_line()
{
  std::vector<std::string> out;
  fcppt::algorithm::loop(fcppt::math::int_range_count<N>{}, [&out]<typename I>(fcppt::tag<I>) { out.push_back(num(I::value)); });
  return "e=" + join_str(out);
}

std::string handle_inner(std::vector<std::string> const &t)
{
  if (t.empty())
    return "bad-op";
  std::string const &op = t[0];
  if (op == "ir" || op == "irc" || op == "irs" || op == "irub")
    return ir_dispatch(t);
  if (op == "er" || op == "ers" || op == "era")
    return enum_dispatch(t);
  if (op == "cyc")
    return cyc_line(t);
  if (op == "cycw" && t.size() >= 6)
  {
    if (t[1] == "v") return cycw_line<ivec, true>(t);
    if (t[1] == "l") return cycw_line<ilist, false>(t);
    return "bad-op";
  }
  if (op == "sp" && t.size() == 5)
  {
    if (t[1] == "i32") return sp_line<std::int32_t>(t);
    if (t[1] == "i64") return sp_line<std::int64_t>(t);
    return "bad-op";
  }
  if (op == "nb" && t.size() == 4)
  {
    if (t[1] == "i32") return nb_line<std::int32_t>(t);
    if (t[1] == "i64") return nb_line<std::int64_t>(t);
    if (t[1] == "u32") return nb_line<std::uint32_t>(t);
    if (t[1] == "u64") return nb_line<std::uint64_t>(t);
    return "bad-op";
  }
  if (op == "itr" && t.size() == 5)
  {
    if (t[1] == "v") return itr_line<ivec>(t);
    if (t[1] == "l") return itr_line<ilist>(t);
    return "bad-op";
  }
  if (op == "adr" && t.size() == 3)
  {
    if (t[1] == "v") return adr_line<ivec>(t);
    if (t[1] == "l") return adr_line<ilist>(t);
    return "bad-op";
  }
  if (op == "mirc" && t.size() == 2)
  {
    switch (vh::to_ull(t[1]))
    {
    case 0: return mirc_line<0>();
    case 1: return mirc_line<1>();
    case 2: return mirc_line<2>();
    case 3: return mirc_line<3>();
    case 5: return mirc_line<5>();
    case 8: return mirc_line<8>();
    case 16: return mirc_line<16>();
    default: return "bad-op";
    }
  }
  return "bad-op";
}

std::string handle(std::vector<std::string> const &t)
{
  try
  {
    return handle_inner(t);
  }
  catch (std::invalid_argument const &)
  {
    return "bad-op";
  }
  catch (std::out_of_range const &)
  {
    return "bad-op";
  }
  catch (std::exception const &)
  {
    return "exc:std";
  }
}
}

int main()
{
  vh::op_budget() = 30; // one `irs` line of a 16-bit type enumerates 65536 ranges
  return vh::run(handle);
}
