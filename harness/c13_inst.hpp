// C13 correspondence harness, the part that is a template over the coordinate type: runs the real fcppt::math::box
// functions on the operation lines described in /verif/lean/FcpptModel/Drv/C13.lean and prints the same canonical result lines.
// One translation unit per coordinate type (c13_i.cpp, c13_u.cpp, c13_l.cpp, c13_m.cpp) instantiates by_dim<T>.
#ifndef VERIF_HARNESS_C13_INST_HPP
#define VERIF_HARNESS_C13_INST_HPP

#include "common/vh.hpp"

#include <fcppt/no_init.hpp>
#include <fcppt/cast/size_fun.hpp>
#include <fcppt/cast/static_cast_fun.hpp>
#include <fcppt/cast/to_signed_fun.hpp>
#include <fcppt/cast/to_unsigned_fun.hpp>
#include <fcppt/math/interval_distance.hpp>
#include <fcppt/math/size_constant.hpp>
#include <fcppt/math/size_type.hpp>
#include <fcppt/math/box/center.hpp>
#include <fcppt/math/box/comparison.hpp>
#include <fcppt/math/box/contains.hpp>
#include <fcppt/math/box/contains_point.hpp>
#include <fcppt/math/box/corner_points.hpp>
#include <fcppt/math/box/distance.hpp>
#include <fcppt/math/box/extend_bounding_box.hpp>
#include <fcppt/math/box/has_dim.hpp>
#include <fcppt/math/box/init_dim.hpp>
#include <fcppt/math/box/init_max.hpp>
#include <fcppt/math/box/intersection.hpp>
#include <fcppt/math/box/intersects.hpp>
#include <fcppt/math/box/interval.hpp>
#include <fcppt/math/box/is_box.hpp>
#include <fcppt/math/box/null.hpp>
#include <fcppt/math/box/object.hpp>
#include <fcppt/math/box/output.hpp>
#include <fcppt/math/box/rect.hpp>
#include <fcppt/math/box/shrink.hpp>
#include <fcppt/math/box/stretch_absolute.hpp>
#include <fcppt/math/box/stretch_relative.hpp>
#include <fcppt/math/box/structure_cast.hpp>
#include <fcppt/math/matrix/at_r.hpp>
#include <fcppt/math/matrix/index.hpp>
#include <fcppt/math/matrix/init.hpp>
#include <fcppt/math/matrix/object_impl.hpp>
#include <fcppt/math/matrix/static.hpp>
#include <fcppt/math/dim/at.hpp>
#include <fcppt/math/dim/init.hpp>
#include <fcppt/math/dim/object_impl.hpp>
#include <fcppt/math/vector/at.hpp>
#include <fcppt/math/vector/init.hpp>
#include <fcppt/math/vector/object_impl.hpp>
#include <fcppt/tuple/get.hpp>
#include <fcppt/tuple/make.hpp>
#include <fcppt/tuple/object_impl.hpp>

#include <array>
#include <cstdint>
#include <limits>
#include <optional>
#include <sstream>
#include <string>
#include <type_traits>
#include <utility>
#include <vector>

namespace c13
{
constexpr std::uint64_t prime = 1099511628211ULL;

inline std::uint64_t mix(std::uint64_t h, std::uint64_t x) { return (h ^ x) * prime; }

template <typename T>
std::uint64_t u64(T x)
{
  if constexpr (std::is_signed_v<T>)
    return static_cast<std::uint64_t>(static_cast<std::int64_t>(x));
  else
    return static_cast<std::uint64_t>(x);
}

// accept exactly the decimal numerals of values of T
template <typename T>
std::optional<T> scalar(std::string const &s)
{
  std::size_t k = 0;
  bool neg = false;
  if (k < s.size() && s[k] == '-')
  {
    neg = true;
    ++k;
  }
  if (k == s.size() || s.size() - k > 20)
    return std::nullopt;
  __int128 v = 0;
  for (; k < s.size(); ++k)
  {
    if (s[k] < '0' || s[k] > '9')
      return std::nullopt;
    v = v * 10 + (s[k] - '0');
  }
  if (neg)
    v = -v;
  if (v < static_cast<__int128>(std::numeric_limits<T>::min()) || v > static_cast<__int128>(std::numeric_limits<T>::max()))
    return std::nullopt;
  return static_cast<T>(v);
}

// the letter of the coordinate type in the protocol
template <typename T>
struct other_types;
template <>
struct other_types<int>
{
  using t0 = unsigned;
  using c0 = fcppt::cast::to_unsigned_fun;
  using t1 = long;
  using c1 = fcppt::cast::size_fun;
  using t2 = unsigned long;
  using c2 = fcppt::cast::static_cast_fun;
};
template <>
struct other_types<unsigned>
{
  using t0 = int;
  using c0 = fcppt::cast::to_signed_fun;
  using t1 = unsigned long;
  using c1 = fcppt::cast::size_fun;
  using t2 = long;
  using c2 = fcppt::cast::static_cast_fun;
};
template <>
struct other_types<long>
{
  using t0 = unsigned long;
  using c0 = fcppt::cast::to_unsigned_fun;
  using t1 = int;
  using c1 = fcppt::cast::size_fun;
  using t2 = unsigned;
  using c2 = fcppt::cast::static_cast_fun;
};
template <>
struct other_types<unsigned long>
{
  using t0 = long;
  using c0 = fcppt::cast::to_signed_fun;
  using t1 = unsigned;
  using c1 = fcppt::cast::size_fun;
  using t2 = int;
  using c2 = fcppt::cast::static_cast_fun;
};

template <typename T, fcppt::math::size_type N>
struct inst
{
  using box = fcppt::math::box::object<T, N>;
  using vec = typename box::vector;
  using dim = typename box::dim;
  using arr = std::array<T, N>;

  static_assert(fcppt::math::box::is_box<box>::value);
  static_assert(!fcppt::math::box::is_box<vec>::value);
  static_assert(fcppt::math::box::has_dim<box, N>::value);
  static_assert(!fcppt::math::box::has_dim<box, N + 1>::value);
  static_assert(std::is_same_v<fcppt::math::box::rect<T>, fcppt::math::box::object<T, 2>>);

  static vec to_vec(arr const &a)
  {
    return fcppt::math::vector::init<vec>(
        [&a]<fcppt::math::size_type I>(fcppt::math::size_constant<I>) { return a[I]; });
  }

  template <typename V>
  static auto from(V const &v)
  {
    std::array<typename V::value_type, N> r{};
    // the storage is read through the public at<I>
    [&]<std::size_t... I>(std::index_sequence<I...>)
    { ((r[I] = fcppt::math::vector::at<I>(v)), ...); }(std::make_index_sequence<N>{});
    return r;
  }

  static arr from_dim(dim const &v)
  {
    arr r{};
    [&]<std::size_t... I>(std::index_sequence<I...>)
    { ((r[I] = fcppt::math::dim::at<I>(v)), ...); }(std::make_index_sequence<N>{});
    return r;
  }

  static std::optional<vec> parse_vec(std::string const &s)
  {
    arr a{};
    if constexpr (N == 0)
    {
      if (s != "-")
        return std::nullopt;
      return to_vec(a);
    }
    else
    {
      std::size_t pos = 0;
      for (std::size_t k = 0; k < N; ++k)
      {
        std::size_t const next = s.find(',', pos);
        if ((next == std::string::npos) != (k + 1 == N))
          return std::nullopt;
        auto const v = scalar<T>(s.substr(pos, next == std::string::npos ? next : next - pos));
        if (!v)
          return std::nullopt;
        a[k] = *v;
        pos = next + 1;
      }
      return to_vec(a);
    }
  }

  template <typename A>
  static std::string show(A const &a)
  {
    if (N == 0)
      return "-";
    std::string r;
    for (std::size_t k = 0; k < N; ++k)
    {
      if (k)
        r += ',';
      r += std::to_string(a[k]);
    }
    return r;
  }
  template <typename V>
  static std::string show_vec(V const &v)
  {
    return show(from(v));
  }
  template <typename B>
  static std::string show_box(B const &b)
  {
    return show_vec(b.pos()) + "/" + show_vec(b.max());
  }
  static char const *b01(bool b) { return b ? "1" : "0"; }

  static std::uint64_t mix_vec(std::uint64_t h, vec const &v)
  {
    for (T x : from(v))
      h = mix(h, u64(x));
    return h;
  }
  static std::uint64_t mix_box(std::uint64_t h, box const &b) { return mix_vec(mix_vec(h, b.pos()), b.max()); }

  // all points of [lo,hi]^N, coordinate 0 outermost
  static std::vector<vec> cube(T lo, T hi)
  {
    std::vector<vec> r;
    if (hi < lo)
      return r;
    arr cur{};
    cur.fill(lo);
    while (true)
    {
      r.push_back(to_vec(cur));
      std::size_t k = N;
      if (k == 0)
        return r;
      while (k > 0)
      {
        --k;
        if (cur[k] < hi)
        {
          ++cur[k];
          break;
        }
        cur[k] = lo;
        if (k == 0)
          return r;
      }
    }
  }

  static std::string pair_line(box const &a, box const &b, std::vector<vec> const &lat)
  {
    namespace fb = fcppt::math::box;
    box const i{fb::intersection(a, b)};
    box const e{fb::extend_bounding_box(a, b)};
    std::uint64_t h = vh::fnv_init;
    for (vec const &p : lat)
      h = mix(
          h,
          (fb::contains_point(a, p) ? 1U : 0U) | (fb::contains_point(b, p) ? 2U : 0U) |
              (fb::contains_point(i, p) ? 4U : 0U) | (fb::contains_point(e, p) ? 8U : 0U));
    std::string r;
    r += "int=";
    r += b01(fb::intersects(a, b));
    r += b01(fb::intersects(b, a));
    r += " cont=";
    r += b01(fb::contains(a, b));
    r += b01(fb::contains(b, a));
    r += " isect=" + show_box(i) + " ext=" + show_box(e);
    r += " eq=";
    r += b01(a == b);
    r += " ne=";
    r += b01(a != b);
    r += " lt=";
    r += b01(a < b);
    r += " gt=";
    r += b01(b < a);
    r += " dist=" + show_vec(fb::distance(a, b)) + " rdist=" + show_vec(fb::distance(b, a));
    r += " pts=" + vh::hex64(h);
    return r;
  }

  static std::string pt_line(box const &a, box const &b, vec const &p)
  {
    namespace fb = fcppt::math::box;
    box const i{fb::intersection(a, b)};
    box const e{fb::extend_bounding_box(a, b)};
    std::string r;
    r += "a=";
    r += b01(fb::contains_point(a, p));
    r += " b=";
    r += b01(fb::contains_point(b, p));
    r += " i=";
    r += b01(fb::contains_point(i, p));
    r += " e=";
    r += b01(fb::contains_point(e, p));
    return r;
  }

  static std::string pairs_digest(box const &a, T lo, T hi, T clo, T chi)
  {
    auto const lat = cube(lo, hi);
    auto const cs = cube(clo, chi);
    std::uint64_t h = vh::fnv_init;
    for (vec const &bmin : cs)
      for (vec const &bmax : cs)
        h = vh::fnv(h, pair_line(a, box{bmin, bmax}, lat));
    return "D " + vh::hex64(h);
  }

  static std::string intervals(box const &b)
  {
    if (N == 0)
      return "-";
    std::string r;
    [&]<std::size_t... I>(std::index_sequence<I...>)
    {
      ((r += (I ? ";" : "") + std::to_string(fcppt::tuple::get<0>(fcppt::math::box::interval<I>(b))) + ":" +
             std::to_string(fcppt::tuple::get<1>(fcppt::math::box::interval<I>(b)))),
       ...);
    }(std::make_index_sequence<N>{});
    return r;
  }

  static std::string cmp_line(box const &a, box const &b)
  {
    namespace fb = fcppt::math::box;
    std::string r;
    r += "int=";
    r += b01(fb::intersects(a, b));
    r += b01(fb::intersects(b, a));
    r += " cont=";
    r += b01(fb::contains(a, b));
    r += b01(fb::contains(b, a));
    r += " isect=" + show_box(fb::intersection(a, b)) + " ext=" + show_box(fb::extend_bounding_box(a, b));
    r += " iv=" + intervals(a) + "|" + intervals(b);
    return r;
  }

  static std::string shr_line(box const &b, vec const &v)
  {
    namespace fb = fcppt::math::box;
    box const s{fb::shrink(b, v)};
    return "shrink=" + show_box(s) + " stretch=" + show_box(fb::stretch_absolute(b, v)) +
           " back=" + show_box(fb::stretch_absolute(s, v));
  }

  static std::string extp_line(box const &b, vec const &p)
  {
    namespace fb = fcppt::math::box;
    std::string r = "ext=" + show_box(fb::extend_bounding_box(b, p)) + " in=" + b01(fb::contains_point(b, p));
    r += b01(contains_point_row(b, p));
    return r;
  }

  // contains_point with the point as a vector of another storage type: row 1 of a 2 x N matrix (a view into the matrix)
  static bool contains_point_row(box const &b, vec const &p)
  {
    if constexpr (N >= 1)
    {
      using mat = fcppt::math::matrix::static_<T, 2, N>;
      arr const pa{from(p)};
      mat const m{fcppt::math::matrix::init<mat>(
          [&pa]<fcppt::math::size_type R, fcppt::math::size_type C>(fcppt::math::matrix::index<R, C>)
          { return R == 1 ? pa[C] : T{}; })};
      return fcppt::math::box::contains_point(b, fcppt::math::matrix::at_r<1>(m));
    }
    else
      return fcppt::math::box::contains_point(b, p);
  }

  static std::string strel_line(box const &b, vec const &f)
  {
    return "strel=" + show_box(fcppt::math::box::stretch_relative(b, f));
  }

  static std::string sides(box const &b)
  {
    std::string r;
    if constexpr (N >= 1)
      r += " l=" + std::to_string(b.left()) + " r=" + std::to_string(b.right());
    if constexpr (N >= 2)
      r += " t=" + std::to_string(b.top()) + " b=" + std::to_string(b.bottom());
    if constexpr (N >= 3)
      r += " f=" + std::to_string(b.front()) + " k=" + std::to_string(b.back());
    return r;
  }

  // structure_cast to box<D, N> through Conv (every Conv used here is a static_cast).  For a signed destination the
  // (pos, size) constructor adds two signed numbers: when that sum is not representable the call would be undefined
  // behaviour, so it is not made (the model reports the fault by name).
  template <typename D, typename Conv>
  static std::string cast_one(box const &b)
  {
    using dbox = fcppt::math::box::object<D, N>;
    if constexpr (std::is_signed_v<D>)
    {
      auto const p = from(b.pos());
      auto const s = from_dim(b.size());
      for (std::size_t k = 0; k < N; ++k)
      {
        __int128 const sum = static_cast<__int128>(static_cast<D>(p[k])) + static_cast<__int128>(static_cast<D>(s[k]));
        if (sum < static_cast<__int128>(std::numeric_limits<D>::min()) || sum > static_cast<__int128>(std::numeric_limits<D>::max()))
          return "signed-overflow";
      }
    }
    return show_box(fcppt::math::box::structure_cast<dbox, Conv>(b));
  }

  static std::string casts(box const &b)
  {
    using o = other_types<T>;
    return cast_one<typename o::t0, typename o::c0>(b) + "|" + cast_one<typename o::t1, typename o::c1>(b) + "|" +
           cast_one<typename o::t2, typename o::c2>(b);
  }

  // calls whose arguments are the same object / a part of the first argument
  static std::string alias_part(box const &b)
  {
    namespace fb = fcppt::math::box;
    std::string r;
    r += show_box(fb::intersection(b, b)) + "|" + show_box(fb::extend_bounding_box(b, b)) + "|" + show_vec(fb::distance(b, b)) + "|";
    r += show_box(fb::extend_bounding_box(b, b.pos())) + "|" + show_box(fb::extend_bounding_box(b, b.max())) + "|";
    r += b01(fb::contains_point(b, b.pos()));
    r += b01(fb::contains_point(b, b.max()));
    r += "|" + show_box(fb::shrink(b, b.pos())) + "|" + show_box(fb::shrink(b, b.max())) + "|";
    r += show_box(fb::stretch_absolute(b, b.pos())) + "|" + show_box(fb::stretch_absolute(b, b.max()));
    return r;
  }

  static std::string unary_line(box const &b, T lo, T hi)
  {
    namespace fb = fcppt::math::box;
    auto const lat = cube(lo, hi);
    dim const sz{b.size()};
    arr const sza{from_dim(sz)};
    box const rt1{b.pos(), sz};
    // the user function of init_max / init_dim records its calls: exactly one per index, in index order
    std::string calls2, calls3;
    box const rt2{fb::init_max<box>(
        [&b, &calls2]<fcppt::math::size_type I>(fcppt::math::size_constant<I>)
        {
          calls2 += (calls2.empty() ? "" : ",") + std::to_string(I);
          return fcppt::tuple::make(fcppt::math::vector::at<I>(b.pos()), fcppt::math::vector::at<I>(b.max()));
        })};
    box const rt3{fb::init_dim<box>(
        [&b, &sza, &calls3]<fcppt::math::size_type I>(fcppt::math::size_constant<I>)
        {
          calls3 += (calls3.empty() ? "" : ",") + std::to_string(I);
          return fcppt::tuple::make(fcppt::math::vector::at<I>(b.pos()), sza[I]);
        })};
    std::uint64_t hs = vh::fnv_init;
    for (vec const &v : lat)
      hs = mix_box(mix_box(hs, fb::shrink(b, v)), fb::stretch_absolute(b, v));
    std::uint64_t hp = vh::fnv_init;
    for (vec const &p : lat)
      hp = mix(mix_box(hp, fb::extend_bounding_box(b, p)), (fb::contains_point(b, p) ? 1U : 0U) | (contains_point_row(b, p) ? 2U : 0U));
    std::uint64_t hr = vh::fnv_init;
    for (vec const &f : std::is_signed_v<T> ? cube(static_cast<T>(-2), static_cast<T>(2)) : cube(static_cast<T>(0), static_cast<T>(3)))
      hr = mix_box(hr, fb::stretch_relative(b, f));
    std::string corners;
    if constexpr (N == 0)
      corners = "n/a"; // vector::bit_strings<T, 0> does not compile
    else
    {
      auto const cp = fb::corner_points(b);
      std::size_t count = 0;
      for (auto const &c : cp)
      {
        if (count++)
          corners += ';';
        corners += show_vec(c);
        if (count > 64)
          break;
      }
    }
    std::ostringstream out;
    out << b;
    std::string out_text{out.str()};
    {
      // the same through a wide stream (the operator widens its punctuation)
      std::wostringstream wout;
      wout << b;
      std::wstring const w{wout.str()};
      if (std::wstring(out_text.begin(), out_text.end()) != w)
        out_text += "!wide-differs";
    }
    std::string r;
    r += "size=" + show(sza) + " pos=" + show_vec(b.pos()) + " max=" + show_vec(b.max()) + sides(b);
    r += " corners=" + corners;
    r += " center=" + show_vec(fb::center(b)) + " null=" + show_box(fb::null<box>());
    r += " rt=" + show_box(rt1) + "|" + show_box(rt2) + "|" + show_box(rt3);
    r += " self=";
    r += b01(b == b);
    r += b01(b != b);
    r += b01(b < b);
    r += b01(fb::contains(b, b));
    r += b01(fb::intersects(b, b));
    r += " calls=" + calls2 + "|" + calls3;
    r += " iv=" + intervals(b) + " out=" + out_text + " alias=" + alias_part(b) + " cast=" + casts(b);
    r += " sh=" + vh::hex64(hs) + " xp=" + vh::hex64(hp) + " sr=" + vh::hex64(hr);
    return r;
  }

  // ---- statement sequences on the objects A, B, V (codes: Instr of the Lean model, same order)
  struct state
  {
    box a;
    box b;
    vec v;
  };

  static constexpr std::array<char const *, 30> codes{
      "pv", "mv", "pm", "mp", "pb", "mb", "pbm", "sw", "ss", "sc", "cp", "sa", "mo", "sm",
      "xi", "xb", "xv", "xm", "sh", "st", "shp", "stm", "ni", "ps", "ce", "px", "vp", "vm", "xa", "xe"};

  static int code_index(std::string const &c)
  {
    for (std::size_t k = 0; k < codes.size(); ++k)
      if (c == codes[k])
        return static_cast<int>(k);
    return -1;
  }

  static void exec(state &s, int code)
  {
    namespace fb = fcppt::math::box;
    box &a_alias = s.a;
    switch (code)
    {
    case 0: s.a.pos() = s.v; break;
    case 1: s.a.max() = s.v; break;
    case 2: s.a.pos() = s.a.max(); break;
    case 3: s.a.max() = s.a.pos(); break;
    case 4: s.a.pos() = s.b.pos(); break;
    case 5: s.a.max() = s.b.max(); break;
    case 6: s.a.pos() = s.b.max(); break;
    case 7: std::swap(s.a, s.b); break;
    case 8: std::swap(s.a, a_alias); break;
    case 9: std::swap(s.a.pos(), s.a.max()); break;
    case 10: s.a = s.b; break;
    case 11: s.a = a_alias; break;
    case 12: s.a = std::move(s.b); break;
    case 13: s.a = std::move(a_alias); break;
    case 14: s.a = fb::intersection(s.a, s.b); break;
    case 15: s.a = fb::extend_bounding_box(s.a, s.b); break;
    case 16: s.a = fb::extend_bounding_box(s.a, s.v); break;
    case 17: s.a = fb::extend_bounding_box(s.a, s.a.max()); break;
    case 18: s.a = fb::shrink(s.a, s.v); break;
    case 19: s.a = fb::stretch_absolute(s.a, s.v); break;
    case 20: s.a = fb::shrink(s.a, s.a.pos()); break;
    case 21: s.a = fb::stretch_absolute(s.a, s.a.max()); break;
    case 22:
    {
      box nb{fcppt::no_init{}};
      nb.pos() = s.a.pos();
      nb.max() = s.a.max();
      s.a = nb;
      break;
    }
    case 23: s.a = box{s.a.pos(), s.a.size()}; break;
    case 24: s.a.pos() = fb::center(s.a); break;
    case 25:
      if constexpr (N >= 1)
        fcppt::math::vector::at<0>(s.a.pos()) = fcppt::math::vector::at<0>(s.v);
      break;
    case 26: s.v = s.a.pos(); break;
    case 27: s.v = s.a.max(); break;
    case 28: s.a = fb::intersection(s.a, s.a); break;
    case 29: s.a = fb::extend_bounding_box(s.a, s.a); break;
    default: break;
    }
  }

  static std::string prog_line(state s, std::vector<int> const &prog)
  {
    namespace fb = fcppt::math::box;
    for (int c : prog)
      exec(s, c);
    state const &r = s;
    std::string o;
    o += "A=" + show_box(r.a) + " B=" + show_box(r.b) + " V=" + show_vec(r.v) + " size=" + show(from_dim(r.a.size()));
    o += " obs=";
    o += b01(fb::contains_point(r.a, r.v));
    o += b01(fb::intersects(r.a, r.b));
    o += b01(fb::contains(r.a, r.b));
    o += b01(r.a == r.b);
    o += b01(r.a < r.b);
    return o;
  }

  static std::string progs_digest(state const &s, unsigned len)
  {
    std::uint64_t h = vh::fnv_init;
    std::vector<int> prog(len, 0);
    while (true)
    {
      h = vh::fnv(h, prog_line(s, prog));
      std::size_t k = len;
      bool done = true;
      while (k > 0)
      {
        --k;
        if (prog[k] + 1 < static_cast<int>(codes.size()))
        {
          ++prog[k];
          done = false;
          break;
        }
        prog[k] = 0;
      }
      if (done)
        break;
    }
    return "D " + vh::hex64(h);
  }

  static std::string handle(std::vector<std::string> const &t)
  {
    namespace fb = fcppt::math::box;
    auto vecs = [&t](std::size_t from, std::size_t count) -> std::optional<std::vector<vec>>
    {
      std::vector<vec> r;
      for (std::size_t k = from; k < from + count; ++k)
      {
        auto v = parse_vec(t[k]);
        if (!v)
          return std::nullopt;
        r.push_back(*v);
      }
      return r;
    };
    auto scalars = [&t](std::size_t from, std::size_t count) -> std::optional<std::vector<T>>
    {
      std::vector<T> r;
      for (std::size_t k = from; k < from + count; ++k)
      {
        auto v = scalar<T>(t[k]);
        if (!v)
          return std::nullopt;
        r.push_back(*v);
      }
      return r;
    };
    if (t[0] == "pair" && t.size() == 9)
    {
      auto const v = vecs(3, 4);
      auto const s = scalars(7, 2);
      if (!v || !s)
        return "bad-op";
      return pair_line(box{(*v)[0], (*v)[1]}, box{(*v)[2], (*v)[3]}, cube((*s)[0], (*s)[1]));
    }
    if (t[0] == "pt" && t.size() == 8)
    {
      auto const v = vecs(3, 5);
      if (!v)
        return "bad-op";
      return pt_line(box{(*v)[0], (*v)[1]}, box{(*v)[2], (*v)[3]}, (*v)[4]);
    }
    if (t[0] == "pairs" && t.size() == 9)
    {
      auto const v = vecs(3, 2);
      auto const s = scalars(5, 4);
      if (!v || !s)
        return "bad-op";
      return pairs_digest(box{(*v)[0], (*v)[1]}, (*s)[0], (*s)[1], (*s)[2], (*s)[3]);
    }
    if (t[0] == "cmp" && t.size() == 7)
    {
      auto const v = vecs(3, 4);
      if (!v)
        return "bad-op";
      return cmp_line(box{(*v)[0], (*v)[1]}, box{(*v)[2], (*v)[3]});
    }
    if (t[0] == "unary" && t.size() == 7)
    {
      auto const v = vecs(3, 2);
      auto const s = scalars(5, 2);
      if (!v || !s)
        return "bad-op";
      return unary_line(box{(*v)[0], (*v)[1]}, (*s)[0], (*s)[1]);
    }
    if (t[0] == "shr" && t.size() == 6)
    {
      auto const v = vecs(3, 3);
      if (!v)
        return "bad-op";
      return shr_line(box{(*v)[0], (*v)[1]}, (*v)[2]);
    }
    if (t[0] == "extp" && t.size() == 6)
    {
      auto const v = vecs(3, 3);
      if (!v)
        return "bad-op";
      return extp_line(box{(*v)[0], (*v)[1]}, (*v)[2]);
    }
    if (t[0] == "strel" && t.size() == 6)
    {
      auto const v = vecs(3, 3);
      if (!v)
        return "bad-op";
      return strel_line(box{(*v)[0], (*v)[1]}, (*v)[2]);
    }
    if (t[0] == "prog" && t.size() == 9)
    {
      auto const v = vecs(3, 5);
      if (!v)
        return "bad-op";
      std::vector<int> prog;
      if (t[8] != "-")
      {
        std::size_t pos = 0;
        while (true)
        {
          std::size_t const next = t[8].find(',', pos);
          int const c = code_index(t[8].substr(pos, next == std::string::npos ? next : next - pos));
          if (c < 0)
            return "bad-op";
          prog.push_back(c);
          if (next == std::string::npos)
            break;
          pos = next + 1;
        }
      }
      return prog_line(state{box{(*v)[0], (*v)[1]}, box{(*v)[2], (*v)[3]}, (*v)[4]}, prog);
    }
    if (t[0] == "progs" && t.size() == 9)
    {
      auto const v = vecs(3, 5);
      if (!v || t[8].size() != 1 || t[8][0] < '0' || t[8][0] > '3')
        return "bad-op";
      return progs_digest(state{box{(*v)[0], (*v)[1]}, box{(*v)[2], (*v)[3]}, (*v)[4]}, static_cast<unsigned>(t[8][0] - '0'));
    }
    if (t[0] == "foldp" && t.size() >= 5)
    {
      auto const v = vecs(3, t.size() - 3);
      if (!v)
        return "bad-op";
      box b{(*v)[0], (*v)[1]};
      for (std::size_t k = 2; k < v->size(); ++k)
        b = fb::extend_bounding_box(b, (*v)[k]);
      std::string r = "box=" + show_box(b) + " in=";
      for (std::size_t k = 2; k < v->size(); ++k)
        r += b01(fb::contains_point(b, (*v)[k]));
      return r;
    }
    if (t[0] == "foldb" && t.size() >= 5 && t.size() % 2 == 1)
    {
      auto const v = vecs(3, t.size() - 3);
      if (!v)
        return "bad-op";
      box e{(*v)[0], (*v)[1]};
      box i{e};
      for (std::size_t k = 2; k + 1 < v->size(); k += 2)
      {
        box const b{(*v)[k], (*v)[k + 1]};
        e = fb::extend_bounding_box(e, b);
        i = fb::intersection(i, b);
      }
      return "ext=" + show_box(e) + " isect=" + show_box(i);
    }
    return "bad-op";
  }
};

template <typename T>
std::string idist(std::vector<std::string> const &t)
{
  auto const a1 = scalar<T>(t[2]), a2 = scalar<T>(t[3]), b1 = scalar<T>(t[4]), b2 = scalar<T>(t[5]);
  if (!a1 || !a2 || !b1 || !b2)
    return "bad-op";
  return std::to_string(
      fcppt::math::interval_distance(fcppt::tuple::make(*a1, *a2), fcppt::tuple::make(*b1, *b2)));
}

template <typename T>
std::string by_dim(std::vector<std::string> const &t)
{
  if (t[0] == "idist")
    return t.size() == 6 ? idist<T>(t) : "bad-op";
  if (t[2] == "0")
    return inst<T, 0>::handle(t);
  if (t[2] == "1")
    return inst<T, 1>::handle(t);
  if (t[2] == "2")
    return inst<T, 2>::handle(t);
  if (t[2] == "3")
    return inst<T, 3>::handle(t);
  if (t[2] == "4")
    return inst<T, 4>::handle(t);
  return "bad-op";
}

// defined in c13_i.cpp, c13_u.cpp, c13_l.cpp, c13_m.cpp
std::string handle_i(std::vector<std::string> const &);
std::string handle_u(std::vector<std::string> const &);
std::string handle_l(std::vector<std::string> const &);
std::string handle_m(std::vector<std::string> const &);
}

#endif
