// C12 correspondence harness: runs the real fcppt::parse::detail::stream<Ch> (over a real
// std::basic_istringstream<Ch>, or over a failure-injecting streambuf) and the real character-level
// parsers on the operation lines described in lean/FcpptModel/Drv/C12.lean and prints the same
// canonical result lines.  Error message texts are never printed: only the "Line l:c" numbers.
#include "common/vh.hpp"
#include "common/route.hpp"

#include <fcppt/make_ref.hpp>
#include <fcppt/reference_impl.hpp>
#include <fcppt/reference_to_base.hpp>
#include <fcppt/either/match.hpp>
#include <fcppt/optional/make.hpp>
#include <fcppt/optional/maybe.hpp>
#include <fcppt/optional/object_impl.hpp>
#include <fcppt/parse/basic_char.hpp>
#include <fcppt/parse/basic_char_set.hpp>
#include <fcppt/parse/basic_literal.hpp>
#include <fcppt/parse/basic_stream_impl.hpp>
#include <fcppt/parse/column.hpp>
#include <fcppt/parse/error.hpp>
#include <fcppt/parse/get_char.hpp>
#include <fcppt/parse/get_position.hpp>
#include <fcppt/parse/line.hpp>
#include <fcppt/parse/location.hpp>
#include <fcppt/parse/parse.hpp>
#include <fcppt/parse/position.hpp>
#include <fcppt/parse/set_position.hpp>
#include <fcppt/parse/detail/exception.hpp>
#include <fcppt/parse/detail/stream_impl.hpp>
#include <fcppt/parse/skipper/basic_char_set.hpp>
#include <fcppt/parse/skipper/basic_literal.hpp>
#include <fcppt/parse/skipper/run.hpp>

#include <cstdint>
#include <ios>
#include <istream>
#include <memory>
#include <sstream>
#include <stdexcept>
#include <streambuf>
#include <string>
#include <utility>
#include <vector>

namespace
{
// special-member mismatches of the current operation line (appended to the result line by handle())
inline std::string &sm_mismatch()
{
  static std::string m;
  return m;
}

// ---------------------------------------------------------------- read-only view of stream::location_
// The stored location is private and the only public observer, get_position(), changes the istream
// flags (it clears eof).  To compare the stored location after EVERY operation without disturbing the
// history, the member pointer is obtained through an explicit instantiation (access checks do not
// apply to the arguments of an explicit instantiation).  Only reads go through it.
template <typename Ch>
struct loc_tag
{
  using type = fcppt::parse::location fcppt::parse::detail::stream<Ch>::*;
  friend type get_member(loc_tag);
};
template <typename Tag, typename Tag::type Member>
struct rob
{
  friend typename Tag::type get_member(Tag) { return Member; }
};
template struct rob<loc_tag<char>, &fcppt::parse::detail::stream<char>::location_>;
template struct rob<loc_tag<wchar_t>, &fcppt::parse::detail::stream<wchar_t>::location_>;

// ---------------------------------------------------------------- failure-injecting stream buffer
// Unbuffered, seekable; uflow throws once `budget` characters have been delivered (never at the end
// of the text, where it reports eof).  istream::get turns the exception into badbit.
template <typename Ch>
class failing_buf : public std::basic_streambuf<Ch>
{
public:
  using base = std::basic_streambuf<Ch>;
  using int_type = typename base::int_type;
  using pos_type = typename base::pos_type;
  using off_type = typename base::off_type;
  using traits = typename base::traits_type;

  failing_buf(std::basic_string<Ch> _text, unsigned long long const _budget)
      : text_{std::move(_text)}, budget_{_budget}
  {
  }

protected:
  int_type underflow() override
  {
    if (i_ >= text_.size())
      return traits::eof();
    if (reads_ >= budget_)
      throw std::runtime_error{"read error"};
    return traits::to_int_type(text_[i_]);
  }

  int_type uflow() override
  {
    if (i_ >= text_.size())
      return traits::eof();
    if (reads_ >= budget_)
      throw std::runtime_error{"read error"};
    ++reads_;
    return traits::to_int_type(text_[i_++]);
  }

  pos_type seekoff(off_type const _off, std::ios_base::seekdir const _way, std::ios_base::openmode) override
  {
    off_type const base_off = _way == std::ios_base::beg   ? off_type{0}
                              : _way == std::ios_base::cur ? static_cast<off_type>(i_)
                                                           : static_cast<off_type>(text_.size());
    return this->seekpos(pos_type(base_off + _off), std::ios_base::in);
  }

  pos_type seekpos(pos_type const _pos, std::ios_base::openmode) override
  {
    off_type const o(_pos);
    if (o < 0 || o > static_cast<off_type>(text_.size()))
      return pos_type(off_type(-1));
    i_ = static_cast<std::size_t>(o);
    return _pos;
  }

private:
  std::basic_string<Ch> text_;
  unsigned long long budget_;
  std::size_t i_{0};
  unsigned long long reads_{0};
};

// ---------------------------------------------------------------- observations
struct obs
{
  // 1 ch value, 2 none, 3 exc, 4 pos, 5 ok, 6 noslot, 7 other exception (never predicted)
  int kind;
  unsigned long long a, b, c; // ch: a = code; pos: a = off, b = line, c = col (b = 0: no location)
  unsigned flags;             // eof + 2 fail + 4 bad
  unsigned long long ll = 0, lc = 0; // stream::location_ after the operation
};

inline std::uint64_t mix(std::uint64_t const h, std::uint64_t const v) { return (h ^ v) * 1099511628211ULL; }

inline std::uint64_t mix_obs(std::uint64_t h, obs const &o)
{
  h = mix(h, static_cast<std::uint64_t>(o.kind));
  if (o.kind == 1)
    h = mix(h, o.a);
  else if (o.kind == 4)
    h = mix(mix(mix(h, o.a), o.b), o.c);
  return mix(mix(mix(h, 16U + o.flags), o.ll), o.lc);
}

inline std::string flags_str(unsigned const f)
{
  std::string r{"/"};
  r += (f & 1U) ? '1' : '0';
  r += (f & 2U) ? '1' : '0';
  r += (f & 4U) ? '1' : '0';
  return r;
}

inline std::string obs_str(char const tag, obs const &o)
{
  std::string r{tag};
  r += '=';
  switch (o.kind)
  {
  case 1: r += std::to_string(o.a); break;
  case 2: r += "none"; break;
  case 3: r += "exc"; break;
  case 4:
    r += std::to_string(static_cast<long long>(o.a)) + "@" +
         (o.b == 0 ? std::string{"-"} : std::to_string(o.b) + ":" + std::to_string(o.c));
    break;
  case 5: r += "ok"; break;
  case 6: r += "noslot"; break;
  default: r += "exc:other"; break;
  }
  return r + flags_str(o.flags) + "@" + std::to_string(o.ll) + ":" + std::to_string(o.lc);
}

struct op
{
  int kind; // 0 get, 1 pos, 2 set
  std::size_t j;
};

inline char op_tag(op const &o) { return o.kind == 0 ? 'g' : o.kind == 1 ? 'p' : 's'; }

// ---------------------------------------------------------------- one stream under test
template <typename Ch>
struct unsigned_of;
template <>
struct unsigned_of<char>
{
  static unsigned long long code(char const c) { return static_cast<unsigned char>(c); }
};
template <>
struct unsigned_of<wchar_t>
{
  static unsigned long long code(wchar_t const c) { return static_cast<unsigned long long>(static_cast<std::uint32_t>(c)); }
};

template <typename Ch>
struct kase
{
  using string = std::basic_string<Ch>;
  using position = fcppt::parse::position<Ch>;
  using bstream = fcppt::parse::basic_stream<Ch>;
  using sref = fcppt::reference<bstream>;

  std::unique_ptr<failing_buf<Ch>> fbuf;
  std::unique_ptr<std::basic_istream<Ch>> is;
  std::unique_ptr<fcppt::parse::detail::stream<Ch>> st;
  std::vector<position> saved;
  unsigned route_{0U}; // constant: the route depends only on the operation and the number of saved positions (replays reproduce it)

  kase(string const &_text, long long const _fa)
  {
    if (_fa < 0)
    {
      // exactly what fcppt::parse::parse_string uses
      is = std::make_unique<std::basic_istringstream<Ch>>(_text);
    }
    else
    {
      fbuf = std::make_unique<failing_buf<Ch>>(_text, static_cast<unsigned long long>(_fa));
      is = std::make_unique<std::basic_istream<Ch>>(fbuf.get());
    }
    st = std::make_unique<fcppt::parse::detail::stream<Ch>>(fcppt::make_ref(*is));
  }

  sref ref() { return fcppt::reference_to_base<bstream>(fcppt::make_ref(*st)); }

  unsigned flags() const
  {
    auto const s = is->rdstate();
    return ((s & std::ios_base::eofbit) ? 1U : 0U) | ((s & std::ios_base::failbit) ? 2U : 0U) |
           ((s & std::ios_base::badbit) ? 4U : 0U);
  }

  std::string state_str() const
  {
    fcppt::parse::location const l{stored_location()};
    return flags_str(flags()) + "@" + std::to_string(l.line().get()) + ":" + std::to_string(l.column().get());
  }

  static obs pos_obs(position const &_p, unsigned const _flags)
  {
    long long const off = static_cast<long long>(std::streamoff(_p.pos()));
    return fcppt::optional::maybe(
        _p.location(),
        [&] { return obs{4, static_cast<unsigned long long>(off), 0, 0, _flags}; },
        [&](fcppt::parse::location const &_l) {
          return obs{4, static_cast<unsigned long long>(off), _l.line().get(), _l.column().get(), _flags};
        });
  }

  // the stored location travels through a special member of fcppt::parse::location before it is read (a value: line
  // AND column must survive; common/route.hpp, notes/sweep.md); the route is a function of the location and the flags
  fcppt::parse::location stored_location() const
  {
    fcppt::parse::location const &want{(*st).*get_member(loc_tag<Ch>{})};
    unsigned const route{static_cast<unsigned>(want.line().get() * 31U + want.column().get() * 7U + flags())};
    if (route % 2U == 1U) // every second (location, flags) combination: keeps the long histories fast
      return want;
    return vh::sm::checked_eq(
        sm_mismatch(),
        "parse::location",
        route / 2U,
        want,
        [&want]
        {
          return fcppt::parse::location{
              fcppt::parse::line{want.line().get() + 1U}, fcppt::parse::column{want.column().get() + 2U}};
        },
        [](fcppt::parse::location const &_l)
        { return std::to_string(_l.line().get()) + ":" + std::to_string(_l.column().get()); });
  }

  obs stamp(obs _o) const
  {
    fcppt::parse::location const l{stored_location()};
    _o.ll = l.line().get();
    _o.lc = l.column().get();
    return _o;
  }

  obs set_to(position const &_p) { return stamp(set_to0(_p)); }

  obs step(op const &_o) { return stamp(step0(_o)); }

  obs set_to0(position const &_p)
  {
    try
    {
      fcppt::parse::set_position(ref(), _p);
      return obs{5, 0, 0, 0, flags()};
    }
    catch (fcppt::parse::detail::exception<Ch> const &)
    {
      return obs{3, 0, 0, 0, flags()};
    }
    catch (...)
    {
      return obs{7, 0, 0, 0, flags()};
    }
  }

  obs step0(op const &_o)
  {
    try
    {
      switch (_o.kind)
      {
      case 0:
      {
        fcppt::optional::object<Ch> const r{fcppt::parse::get_char(ref())};
        return fcppt::optional::maybe(
            r, [this] { return obs{2, 0, 0, 0, flags()}; },
            [this](Ch const _c) { return obs{1, unsigned_of<Ch>::code(_c), 0, 0, flags()}; });
      }
      case 1:
      {
        position const p{fcppt::parse::get_position(ref())};
        saved.push_back(p);
        return pos_obs(p, flags());
      }
      default:
        if (_o.j >= saved.size())
          return obs{6, 0, 0, 0, flags()};
        {
          // the position handed to set_position travels through every special member of fcppt::parse::position in turn
          // (a position is a value: offset AND location must survive copy/move construction and copy/move assignment,
          // also onto an object that held a different position before)
          position const &want{saved[_o.j]};
          position const &other{saved[(_o.j + 1U) % saved.size()]};
          switch ((static_cast<unsigned>(_o.j) * 2U + static_cast<unsigned>(saved.size()) + route_) % 5U)
          {
          case 0:
            return set_to0(position{want}); // copy construction
          case 1:
          {
            position tmp{other};
            tmp = want; // copy assignment from an lvalue over a different value
            return set_to0(tmp);
          }
          case 2:
          {
            position tmp{other};
            tmp = position{want}; // move assignment
            return set_to0(tmp);
          }
          case 3:
          {
            position src{want};
            position tmp{std::move(src)}; // move construction
            return set_to0(tmp);
          }
          default:
          {
            position tmp{want};
            position &self{tmp};
            tmp = self; // self assignment
            return set_to0(tmp);
          }
          }
        }
      }
    }
    catch (fcppt::parse::detail::exception<Ch> const &)
    {
      return obs{3, 0, 0, 0, flags()};
    }
    catch (...)
    {
      return obs{7, 0, 0, 0, flags()};
    }
  }

  // ----- character-level parsers.  Result text: ok | ok:<code> | fail:<l>:<c> | fail:noloc | exc
  static std::string error_text(fcppt::parse::error<Ch> const &_e)
  {
    // only the numbers of a leading "Line <l>:<c>: " are extracted, never the text
    string const &m{_e.get()};
    Ch const pre[] = {Ch('L'), Ch('i'), Ch('n'), Ch('e'), Ch(' ')};
    if (m.size() < 5)
      return "fail:noloc";
    for (std::size_t i = 0; i < 5; ++i)
      if (m[i] != pre[i])
        return "fail:noloc";
    std::size_t k = 5;
    auto number = [&m, &k]() -> std::string {
      std::string d;
      while (k < m.size() && m[k] >= Ch('0') && m[k] <= Ch('9'))
        d += static_cast<char>(m[k++]);
      return d;
    };
    std::string const l{number()};
    if (l.empty() || k >= m.size() || m[k] != Ch(':'))
      return "fail:badloc";
    ++k;
    std::string const c{number()};
    if (c.empty() || k >= m.size() || m[k] != Ch(':'))
      return "fail:badloc";
    return "fail:" + l + ":" + c + (_e.is_fatal() ? ":fatal" : "");
  }

  template <typename Parser, typename Show>
  std::string via_parse(Parser const &_parser, Show const &_show)
  {
    try
    {
      return fcppt::either::match(
          fcppt::parse::parse(_parser, static_cast<bstream &>(*st)),
          [](fcppt::parse::error<Ch> const &_e) { return error_text(_e); },
          [&_show](auto const &_v) { return _show(_v); });
    }
    catch (fcppt::parse::detail::exception<Ch> const &)
    {
      return "exc"; // phrase_parse must have caught it: never predicted
    }
    catch (...)
    {
      return "exc:other";
    }
  }

  template <typename Skipper>
  std::string via_skip(Skipper const &_skipper)
  {
    try
    {
      return fcppt::either::match(
          fcppt::parse::skipper::run(_skipper, ref()),
          [](fcppt::parse::error<Ch> const &_e) { return error_text(_e); },
          [](auto const &) { return std::string{"ok"}; });
    }
    catch (fcppt::parse::detail::exception<Ch> const &)
    {
      return "exc";
    }
    catch (...)
    {
      return "exc:other";
    }
  }

  // returns "" for a malformed request
  std::string run_parser(std::string const &_p, std::vector<long long> const &_arg, bool const _dash)
  {
    auto const show_unit = [](auto const &) { return std::string{"ok"}; };
    auto const show_ch = [](Ch const &_c) { return "ok:" + std::to_string(unsigned_of<Ch>::code(_c)); };
    if (_p == "char")
      return _dash ? via_parse(fcppt::parse::basic_char<Ch>{}, show_ch) : std::string{};
    if (_p == "lit" || _p == "slit")
    {
      if (_arg.size() != 1)
        return {};
      Ch const c{static_cast<Ch>(_arg[0])};
      return _p == "lit" ? via_parse(fcppt::parse::basic_literal<Ch>{c}, show_unit)
                         : via_skip(fcppt::parse::skipper::basic_literal<Ch>{c});
    }
    if (_p == "cset" || _p == "scset")
    {
      typename fcppt::parse::basic_char_set<Ch>::char_set_type set{};
      for (long long const v : _arg)
        set.insert(static_cast<Ch>(v));
      if (_p == "cset")
        return via_parse(fcppt::parse::basic_char_set<Ch>{std::move(set)}, show_ch);
      return via_skip(fcppt::parse::skipper::basic_char_set<Ch>{std::move(set)});
    }
    return {};
  }
};

// ---------------------------------------------------------------- scripts and enumerations
std::vector<op> script_a(std::size_t const n)
{
  std::vector<op> r;
  r.push_back({1, 0});
  for (std::size_t i = 0; i < n; ++i)
  {
    r.push_back({0, 0});
    r.push_back({1, 0});
  }
  r.push_back({0, 0});
  r.push_back({0, 0});
  r.push_back({1, 0});
  r.push_back({0, 0});
  for (std::size_t k = 0; k <= n; ++k)
  {
    r.push_back({2, n - k});
    r.push_back({0, 0});
    r.push_back({1, 0});
    r.push_back({0, 0});
  }
  r.push_back({2, 0});
  r.push_back({2, n});
  r.push_back({0, 0});
  r.push_back({2, n / 2});
  r.push_back({1, 0});
  r.push_back({0, 0});
  r.push_back({2, n + 1});
  r.push_back({1, 0});
  return r;
}

std::vector<op> script_b(std::size_t const n)
{
  std::vector<op> r;
  r.push_back({1, 0});
  for (std::size_t i = 0; i < n; ++i)
  {
    r.push_back({0, 0});
    r.push_back({1, 0});
  }
  for (std::size_t a = 0; a <= n; ++a)
    for (std::size_t b = 0; b <= n; ++b)
    {
      r.push_back({2, a});
      r.push_back({0, 0});
      r.push_back({2, b});
      r.push_back({1, 0});
      r.push_back({0, 0});
    }
  for (std::size_t b = 0; b <= n; ++b)
  {
    r.push_back({2, n});
    r.push_back({0, 0});
    r.push_back({2, b});
    r.push_back({0, 0});
    r.push_back({1, 0});
  }
  return r;
}

bool script(std::string const &sc, std::size_t const n, std::vector<op> &out)
{
  if (sc == "A")
    out = script_a(n);
  else if (sc == "B")
    out = script_b(n);
  else
    return false;
  return true;
}

constexpr long long alphabet[4] = {97, 10, 32, 9};

// all op sequences of length <= m in preorder (same order as Drv.allSeqs)
void all_seqs(unsigned const m, std::size_t const k, std::vector<op> &cur, std::vector<std::vector<op>> &out)
{
  out.push_back(cur);
  if (m == 0)
    return;
  cur.push_back({0, 0});
  all_seqs(m - 1, k, cur, out);
  cur.back() = {1, 0};
  all_seqs(m - 1, k + 1, cur, out);
  for (std::size_t j = 0; j < k; ++j)
  {
    cur.back() = {2, j};
    all_seqs(m - 1, k, cur, out);
  }
  cur.pop_back();
}

// ---------------------------------------------------------------- parsing of operation lines
bool parse_list(std::string const &s, long long const max, std::vector<long long> &out)
{
  out.clear();
  if (s == "-")
    return true;
  std::size_t pos = 0;
  while (true)
  {
    std::size_t const next = s.find(',', pos);
    std::string const t{s.substr(pos, next == std::string::npos ? next : next - pos)};
    if (t.empty() || t.size() > 9)
      return false;
    for (char const ch : t)
      if (ch < '0' || ch > '9')
        return false;
    long long const v = std::stoll(t);
    if (v > max)
      return false;
    out.push_back(v);
    if (next == std::string::npos)
      break;
    pos = next + 1;
  }
  return true;
}

bool parse_nat(std::string const &s, unsigned long long &out)
{
  if (s.empty() || s.size() > 15)
    return false;
  for (char const ch : s)
    if (ch < '0' || ch > '9')
      return false;
  out = std::stoull(s);
  return true;
}

bool parse_fa(std::string const &s, long long &out)
{
  if (s == "-")
  {
    out = -1;
    return true;
  }
  unsigned long long v = 0;
  if (!parse_nat(s, v))
    return false;
  out = static_cast<long long>(v);
  return true;
}

bool parse_ops(std::string const &s, std::vector<op> &out)
{
  out.clear();
  if (s == "-")
    return true;
  std::size_t pos = 0;
  while (true)
  {
    std::size_t const next = s.find(',', pos);
    std::string const t{s.substr(pos, next == std::string::npos ? next : next - pos)};
    if (t == "g")
      out.push_back({0, 0});
    else if (t == "p")
      out.push_back({1, 0});
    else if (!t.empty() && t[0] == 's')
    {
      unsigned long long j = 0;
      if (!parse_nat(t.substr(1), j))
        return false;
      out.push_back({2, static_cast<std::size_t>(j)});
    }
    else
      return false;
    if (next == std::string::npos)
      break;
    pos = next + 1;
  }
  return true;
}

template <typename Ch>
std::basic_string<Ch> to_text(std::vector<long long> const &v)
{
  std::basic_string<Ch> r;
  for (long long const c : v)
    r += static_cast<Ch>(c);
  return r;
}

template <typename Ch>
long long kind_max();
template <>
long long kind_max<char>() { return 255; }
template <>
long long kind_max<wchar_t>() { return 1114111; }

}

#include "c12_grammar.cpp"

namespace
{
// ---------------------------------------------------------------- positions as values
// `OFF@L:C` / `OFF@-`
template <typename Ch>
bool parse_position(std::string const &s, std::unique_ptr<fcppt::parse::position<Ch>> &out)
{
  using position = fcppt::parse::position<Ch>;
  using pos_type = typename position::pos_type;
  std::size_t const at = s.find('@');
  if (at == std::string::npos)
    return false;
  unsigned long long off = 0, l = 0, c = 0;
  if (!parse_nat(s.substr(0, at), off))
    return false;
  std::string const rest{s.substr(at + 1)};
  if (rest == "-")
  {
    out = std::make_unique<position>(
        pos_type(std::streamoff(static_cast<long long>(off))), typename position::optional_location{});
    return true;
  }
  std::size_t const colon = rest.find(':');
  if (colon == std::string::npos || !parse_nat(rest.substr(0, colon), l) || !parse_nat(rest.substr(colon + 1), c))
    return false;
  out = std::make_unique<position>(
      pos_type(std::streamoff(static_cast<long long>(off))),
      fcppt::optional::make(fcppt::parse::location{fcppt::parse::line{l}, fcppt::parse::column{c}}));
  return true;
}

template <typename Ch>
std::string narrow_ascii(std::basic_string<Ch> const &s)
{
  std::string r;
  for (Ch const c : s)
  {
    unsigned long long const v = unsigned_of<Ch>::code(c);
    r += v >= 32 && v < 127 ? static_cast<char>(v) : '?';
  }
  return r;
}

// ---------------------------------------------------------------- per character type
template <typename Ch>
struct inst
{
  std::unique_ptr<kase<Ch>> cur;

  static std::string run_text(kase<Ch> &k, std::vector<op> const &ops)
  {
    std::string r;
    for (op const &o : ops)
    {
      if (!r.empty())
        r += ' ';
      r += obs_str(op_tag(o), k.step(o));
    }
    return r;
  }

  static std::uint64_t run_digest(std::uint64_t h, std::basic_string<Ch> const &text, long long const fa,
                                  std::vector<op> const &ops)
  {
    kase<Ch> k{text, fa};
    for (op const &o : ops)
      h = mix_obs(h, k.step(o));
    return h;
  }

  std::string stateless(std::vector<std::string> const &t)
  {
    std::vector<long long> text, arg;
    std::vector<op> ops;
    long long fa = -1;
    if (t[0] == "hist" && t.size() == 5)
    {
      if (!parse_list(t[2], kind_max<Ch>(), text) || !parse_fa(t[3], fa) || !parse_ops(t[4], ops))
        return "bad-op";
      kase<Ch> k{to_text<Ch>(text), fa};
      return run_text(k, ops);
    }
    if (t[0] == "walk" && t.size() == 4)
    {
      if (!parse_list(t[3], kind_max<Ch>(), text) || !script(t[2], text.size(), ops))
        return "bad-op";
      kase<Ch> k{to_text<Ch>(text), -1};
      return run_text(k, ops);
    }
    if (t[0] == "exh" && t.size() == 5)
    {
      unsigned long long l = 0;
      if (!parse_nat(t[3], l) || !parse_list(t[4], kind_max<Ch>(), text) || text.size() > l || l > 16 ||
          !script(t[2], static_cast<std::size_t>(l), ops))
        return "bad-op";
      for (long long const c : text)
        if (c != 97 && c != 10 && c != 32 && c != 9)
          return "bad-op";
      std::size_t const free = static_cast<std::size_t>(l) - text.size();
      std::basic_string<Ch> s{to_text<Ch>(text)};
      std::size_t const pre = s.size();
      s.resize(static_cast<std::size_t>(l), Ch(97));
      std::uint64_t h = vh::fnv_init;
      unsigned long long const total = 1ULL << (2U * free);
      for (unsigned long long code = 0; code < total; ++code)
      {
        // first free letter varies slowest
        for (std::size_t q = 0; q < free; ++q)
          s[pre + q] = static_cast<Ch>(alphabet[(code >> (2U * (free - 1 - q))) & 3U]);
        h = run_digest(h, s, -1, ops);
      }
      return "D " + vh::hex64(h);
    }
    if (t[0] == "seqs" && t.size() == 5)
    {
      unsigned long long m = 0;
      if (!parse_list(t[2], kind_max<Ch>(), text) || !parse_fa(t[3], fa) || !parse_nat(t[4], m) || m > 8)
        return "bad-op";
      static std::vector<std::vector<std::vector<op>>> cache(9);
      auto &seqs = cache[m];
      if (seqs.empty())
      {
        std::vector<op> c;
        all_seqs(static_cast<unsigned>(m), 0, c, seqs);
      }
      std::basic_string<Ch> const s{to_text<Ch>(text)};
      std::uint64_t h = vh::fnv_init;
      for (auto const &sq : seqs)
        h = run_digest(h, s, fa, sq);
      return "D " + vh::hex64(h);
    }
    if (t[0] == "perr" && t.size() == 7)
    {
      if (!parse_list(t[2], kind_max<Ch>(), text) || !parse_fa(t[3], fa) || !parse_ops(t[4], ops))
        return "bad-op";
      bool const dash = t[6] == "-";
      if (!parse_list(t[6], kind_max<Ch>(), arg))
        return "bad-op";
      kase<Ch> k{to_text<Ch>(text), fa};
      for (op const &o : ops)
        (void)k.step(o);
      std::string const r{k.run_parser(t[5], arg, dash)};
      if (r.empty())
        return "bad-op";
      std::string const f{k.state_str()};
      return "r=" + r + f + " " + obs_str('p', k.step(op{1, 0}));
    }
    if ((t[0] == "gp" && t.size() == 7) || (t[0] == "gx" && t.size() == 6) || (t[0] == "ge" && t.size() == 8))
    try
    {
      // the last two tokens: skipper, grammar
      gast sk{}, gr{};
      if (!parse_gtext(t[t.size() - 2], true, kind_max<Ch>(), sk) ||
          !parse_gtext(t[t.size() - 1], false, kind_max<Ch>(), gr) || !well_formed(sk) || !well_formed(gr))
        return "bad-op";
      if (t[0] == "gp")
      {
        if (!parse_list(t[2], kind_max<Ch>(), text) || !parse_fa(t[3], fa) || !parse_ops(t[4], ops))
          return "bad-op";
        world<Ch> const w{gr, sk};
        return grun_str<Ch>(run_traced<Ch>(w, to_text<Ch>(text), fa, ops));
      }
      if (t[0] == "gx")
      {
        unsigned long long l = 0;
        if (!parse_nat(t[2], l) || l > 8 || !parse_fa(t[3], fa))
          return "bad-op";
        world<Ch> const w{gr, sk};
        std::basic_string<Ch> s(static_cast<std::size_t>(l), Ch(97));
        std::uint64_t h = vh::fnv_init;
        unsigned long long const total = 1ULL << (2U * l);
        for (unsigned long long code = 0; code < total; ++code)
        {
          for (std::size_t q = 0; q < l; ++q)
            s[q] = static_cast<Ch>(alphabet[(code >> (2U * (l - 1 - q))) & 3U]);
          // the parse starts after k reads, k = 0 .. l+1 (l+1: one failed read at the end of input)
          ops.clear();
          for (unsigned long long k = 0; k <= l + 1; ++k)
          {
            h = mix_grun(h, run_traced<Ch>(w, s, fa, ops));
            ops.push_back(op{0, 0});
          }
        }
        return "D " + vh::hex64(h);
      }
      // ge K E TEXT FA NRAW SK GR
      unsigned long long nraw = 0;
      if (t[2].size() != 1 || (t[2][0] != 'p' && t[2][0] != 'e' && t[2][0] != 'g') ||
          !parse_list(t[3], kind_max<Ch>(), text) || !parse_fa(t[4], fa) || !parse_nat(t[5], nraw) || nraw > 1000)
        return "bad-op";
      if (t[2][0] == 'e' && t[6] != "eps")
        return "bad-op";
      world<Ch> const w{gr, sk};
      return run_entry<Ch>(w, t[2][0], to_text<Ch>(text), fa, nraw);
    }
    catch (std::logic_error const &)
    {
      return "exc:chars"; // basic_char_set::chars() is not what the constructor was given: never predicted
    }
    if (t[0] == "poseq" && t.size() == 4)
    {
      std::unique_ptr<fcppt::parse::position<Ch>> a, b;
      if (!parse_position<Ch>(t[2], a) || !parse_position<Ch>(t[3], b))
        return "bad-op";
      std::string r{"eq="};
      r += (*a == *b) ? '1' : '0';
      r += (*b == *a) ? '1' : '0';
      r += " leq=";
      if (a->location().has_value() && b->location().has_value())
        r += (a->location().get_unsafe() == b->location().get_unsafe()) ? '1' : '0';
      else
        r += '-';
      // the same object on both sides
      r += " self=";
      r += (*a == *a) ? '1' : '0';
      return r;
    }
    if (t[0] == "posout" && t.size() == 3)
    {
      std::unique_ptr<fcppt::parse::position<Ch>> a;
      if (!parse_position<Ch>(t[2], a))
        return "bad-op";
      std::basic_ostringstream<Ch> o1, o2;
      o1 << *a;
      std::string r{"out=" + narrow_ascii<Ch>(o1.str())};
      if (a->location().has_value())
      {
        fcppt::parse::location const orig{a->location().get_unsafe()};
        o2 << orig;
        r += " loc=" + narrow_ascii<Ch>(o2.str());
        // the non-const accessors on a copy: ++line, column = 7; the original must not move
        fcppt::parse::location copy{orig};
        ++copy.line();
        copy.column() = fcppt::parse::column{7U};
        std::basic_ostringstream<Ch> o3, o4;
        o3 << copy;
        o4 << orig;
        r += " mut=" + narrow_ascii<Ch>(o3.str()) + " orig=" + narrow_ascii<Ch>(o4.str());
        r += (copy == orig) ? " same" : " differ";
      }
      return r;
    }
    return "bad-op";
  }
};

struct state
{
  char kind = 0; // 0 none, 'c', 'w'
  inst<char> c;
  inst<wchar_t> w;

  void reset()
  {
    kind = 0;
    c.cur.reset();
    w.cur.reset();
  }
};

state g;

template <typename Ch>
std::string stateful(inst<Ch> &in, std::vector<std::string> const &t)
{
  kase<Ch> &k = *in.cur;
  if (t[0] == "get" && t.size() == 1)
    return obs_str('g', k.step(op{0, 0}));
  if (t[0] == "pos" && t.size() == 1)
    return obs_str('p', k.step(op{1, 0}));
  if (t[0] == "set" && t.size() == 2)
  {
    unsigned long long j = 0;
    if (!parse_nat(t[1], j))
      return "bad-op";
    return obs_str('s', k.step(op{2, static_cast<std::size_t>(j)}));
  }
  if (t[0] == "setraw" && (t.size() == 3 || t.size() == 4))
  {
    bool const neg = !t[1].empty() && t[1][0] == '-';
    unsigned long long mag = 0, l = 0, c = 0;
    if (!parse_nat(neg ? t[1].substr(1) : t[1], mag))
      return "bad-op";
    long long const off = neg ? -static_cast<long long>(mag) : static_cast<long long>(mag);
    using position = fcppt::parse::position<Ch>;
    using pos_type = typename position::pos_type;
    if (t.size() == 3)
    {
      if (t[2] != "-")
        return "bad-op";
      return obs_str('s', k.set_to(position{pos_type(std::streamoff(off)), typename position::optional_location{}}));
    }
    if (!parse_nat(t[2], l) || !parse_nat(t[3], c))
      return "bad-op";
    return obs_str(
        's',
        k.set_to(position{
            pos_type(std::streamoff(off)),
            fcppt::optional::make(fcppt::parse::location{fcppt::parse::line{l}, fcppt::parse::column{c}})}));
  }
  if (t[0] == "gpar" && t.size() == 3)
  {
    gast sk{}, gr{};
    if (!parse_gtext(t[1], true, kind_max<Ch>(), sk) || !parse_gtext(t[2], false, kind_max<Ch>(), gr) ||
        !well_formed(sk) || !well_formed(gr))
      return "bad-op";
    std::unique_ptr<world<Ch>> wp;
    try
    {
      wp = std::make_unique<world<Ch>>(gr, sk);
    }
    catch (std::logic_error const &)
    {
      return "exc:chars";
    }
    world<Ch> const &w{*wp};
    trace_stream<Ch> ts{k};
    gres res{};
    try
    {
      res = to_gres<Ch>(fcppt::parse::phrase_parse(
          w.start(), static_cast<fcppt::parse::basic_stream<Ch> &>(ts), w.skipper()));
    }
    catch (fcppt::parse::detail::exception<Ch> const &)
    {
      res = gres{4, {}};
    }
    catch (...)
    {
      res = gres{5, {}};
    }
    std::string r{"r=" + gres_str(res)};
    for (ev const &e : ts.log)
      r += " " + ev_str(e);
    return r + " |" + k.state_str();
  }
  if (t.size() == 2)
  {
    std::vector<long long> arg;
    bool const dash = t[1] == "-";
    if (!parse_list(t[1], kind_max<Ch>(), arg))
      return "bad-op";
    std::string const r{k.run_parser(t[0], arg, dash)};
    if (r.empty())
      return "bad-op";
    return "r=" + r + k.state_str();
  }
  return "bad-op";
}

bool is_stateful_name(std::string const &s)
{
  return s == "get" || s == "pos" || s == "set" || s == "setraw" || s == "char" || s == "lit" || s == "cset" ||
         s == "slit" || s == "scset" || s == "gpar";
}

std::string handle0(std::vector<std::string> const &t);

std::string handle(std::vector<std::string> const &t)
{
  sm_mismatch().clear();
  std::string const r{handle0(t)};
  return r + sm_mismatch();
}

std::string handle0(std::vector<std::string> const &t)
{
  if (t.empty())
    return "bad-op";
  if (t[0] == "reset" && t.size() == 1)
  {
    g.reset();
    return "ok";
  }
  if (t[0] == "open" && t.size() == 4)
  {
    std::vector<long long> text;
    long long fa = -1;
    if (t[1] == "c")
    {
      if (!parse_list(t[2], 255, text) || !parse_fa(t[3], fa))
        return "bad-op";
      g.reset();
      g.c.cur = std::make_unique<kase<char>>(to_text<char>(text), fa);
      g.kind = 'c';
      return "ok";
    }
    if (t[1] == "w")
    {
      if (!parse_list(t[2], 1114111, text) || !parse_fa(t[3], fa))
        return "bad-op";
      g.reset();
      g.w.cur = std::make_unique<kase<wchar_t>>(to_text<wchar_t>(text), fa);
      g.kind = 'w';
      return "ok";
    }
    return "bad-op";
  }
  if (t[0] == "hist" || t[0] == "walk" || t[0] == "exh" || t[0] == "seqs" || t[0] == "perr" || t[0] == "gp" ||
      t[0] == "gx" || t[0] == "ge" || t[0] == "poseq" || t[0] == "posout")
  {
    if (t.size() < 2)
      return "bad-op";
    if (t[1] == "c")
      return g.c.stateless(t);
    if (t[1] == "w")
      return g.w.stateless(t);
    return "bad-op";
  }
  if (is_stateful_name(t[0]))
  {
    // malformed argument lists are rejected before looking at the state, as the driver does
    if (g.kind == 0)
    {
      if (t[0] == "get" || t[0] == "pos")
        return t.size() == 1 ? "no-stream" : "bad-op";
      if (t[0] == "set")
      {
        unsigned long long j = 0;
        return t.size() == 2 && parse_nat(t[1], j) ? "no-stream" : "bad-op";
      }
      if (t[0] == "setraw")
        return "no-stream";
      if (t[0] == "gpar")
        return t.size() == 3 ? "no-stream" : "bad-op";
      return t.size() == 2 ? "no-stream" : "bad-op";
    }
    return g.kind == 'c' ? stateful(g.c, t) : stateful(g.w, t);
  }
  return "bad-op";
}
}

int main() { return vh::run(handle); }
