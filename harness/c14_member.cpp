// C14 correspondence harness, second translation unit: the MEMBER operators of vector / dim / matrix objects
// (operator+=, -=, *=(object), *=(value_type const &), the converting operator=, the implicit copy assignment,
// writes through get_unsafe / x() / m00() / row views) on objects that live in one "world", so that operands can be
// references into the target: the same object, another row view of the same matrix, a scalar that is an element of the
// target, overlapping buffer views.  Protocol: ops `mem` and `mems` of /verif/lean/FcpptModel/Drv/C14.lean.
//
// The world of a line `mem F R C va vb ma mb ...`:
//   A, B : static vectors (F = v) / dims (F = d) of dimension C with the values va, vb
//   M, P : static R x C matrices with the values ma, mb (row-major; F = v only)
//   U    : a plain array [9] ++ ma ++ mb ++ [8]; buffer views (a storage type defined here: storage_size + operator[])
//          of vectors / dims / matrices start at any offset of it, mutable (mut_view) or read-only (const_view)
// After the statements every cell is read back (A, B, M, P through the public accessors, U directly).
#include "common/vh.hpp"

#include <fcppt/math/size_constant.hpp>
#include <fcppt/math/is_static_storage.hpp>
#include <fcppt/math/size_type.hpp>
#include <fcppt/math/static_size.hpp>
#include <fcppt/math/dim/at.hpp>
#include <fcppt/math/dim/init.hpp>
#include <fcppt/math/dim/object_impl.hpp>
#include <fcppt/math/dim/static.hpp>
#include <fcppt/math/matrix/at_r.hpp>
#include <fcppt/math/matrix/at_r_c.hpp>
#include <fcppt/math/matrix/index.hpp>
#include <fcppt/math/matrix/init.hpp>
#include <fcppt/math/matrix/object_impl.hpp>
#include <fcppt/math/matrix/static.hpp>
#include <fcppt/math/vector/at.hpp>
#include <fcppt/math/vector/init.hpp>
#include <fcppt/math/vector/object_impl.hpp>
#include <fcppt/math/vector/static.hpp>

#include <array>
#include <cstdint>
#include <cstdlib>
#include <optional>
#include <string>
#include <type_traits>
#include <utility>
#include <vector>

namespace
{
namespace fm = fcppt::math;
using T = long;
using sz = fm::size_type;
using ints = std::vector<long>;

constexpr long bound = 1000;

// ------------------------------------------------------------------ buffer view storages

template <typename U, sz N>
class const_view
{
public:
  using value_type = U;
  using size_type = sz;
  using storage_size = fm::static_size<N>;
  using reference = U const &;
  using const_reference = U const &;
  using pointer = U const *;
  using const_pointer = U const *;
  explicit const_view(U const *_p) : p_{_p} {}
  const_reference operator[](size_type const _i) const
  {
    if (_i >= N)
      std::abort(); // the library indexed a storage outside storage_size
    return p_[_i];
  }

private:
  U const *p_;
};

template <typename U, sz N>
class mut_view
{
public:
  using value_type = U;
  using size_type = sz;
  using storage_size = fm::static_size<N>;
  using reference = U &;
  using const_reference = U const &;
  using pointer = U *;
  using const_pointer = U const *;
  explicit mut_view(U *_p) : p_{_p} {}
  reference operator[](size_type const _i)
  {
    if (_i >= N)
      std::abort();
    return p_[_i];
  }
  const_reference operator[](size_type const _i) const
  {
    if (_i >= N)
      std::abort();
    return p_[_i];
  }

private:
  U *p_;
};

// ------------------------------------------------------------------ parsing

std::optional<long> scalar(std::string const &s)
{
  try
  {
    std::size_t used = 0;
    long long const v = std::stoll(s, &used);
    if (s.empty() || used != s.size() || v < -bound || v > bound || s[0] == '+' || s[0] == ' ')
      return std::nullopt;
    return static_cast<long>(v);
  }
  catch (...)
  {
    return std::nullopt;
  }
}

std::optional<unsigned> nat(std::string const &s)
{
  if (s.empty() || s.size() > 6)
    return std::nullopt;
  for (char c : s)
    if (c < '0' || c > '9')
      return std::nullopt;
  return static_cast<unsigned>(std::stoul(s));
}

std::optional<ints> int_list(std::string const &s, std::size_t want)
{
  ints r;
  if (s != "-")
  {
    std::size_t pos = 0;
    while (true)
    {
      std::size_t const next = s.find(',', pos);
      auto const v = scalar(s.substr(pos, next == std::string::npos ? next : next - pos));
      if (!v)
        return std::nullopt;
      r.push_back(*v);
      if (next == std::string::npos)
        break;
      pos = next + 1;
    }
  }
  if (r.size() != want)
    return std::nullopt;
  return r;
}

std::string show(ints const &v) { return vh::join(v); }

// ------------------------------------------------------------------ the world

enum class fam
{
  vector,
  dim
};

template <fam K, sz R, sz C>
struct world
{
  static constexpr fam family = K;
  static constexpr sz rows = R;
  static constexpr sz cols = C;
  static constexpr sz KK = R * C;
  static constexpr sz ulen = 2 * KK + 2;
  template <typename S>
  using obj_t = std::conditional_t<K == fam::vector, fm::vector::object<T, C, S>, fm::dim::object<T, C, S>>;
  using vec_t = std::conditional_t<K == fam::vector, fm::vector::static_<T, C>, fm::dim::static_<T, C>>;
  using mat_t = fm::matrix::static_<T, R, C>;
  using mview_t = fm::matrix::object<T, R, C, mut_view<T, KK>>;
  using cview_t = fm::matrix::object<T, R, C, const_view<T, KK>>;

  static vec_t make_vec(ints const &a)
  {
    if constexpr (K == fam::vector)
      return fm::vector::init<vec_t>([&a]<sz I>(fm::size_constant<I>) { return a[I]; });
    else
      return fm::dim::init<vec_t>([&a]<sz I>(fm::size_constant<I>) { return a[I]; });
  }
  static mat_t make_mat(ints const &a)
  {
    return fm::matrix::init<mat_t>([&a]<sz Row, sz Col>(fm::matrix::index<Row, Col>) { return a[Row * C + Col]; });
  }

  vec_t A, B;
  mat_t M, P;
  std::array<T, ulen> U;

  world(ints const &va, ints const &vb, ints const &ma, ints const &mb) : A{make_vec(va)}, B{make_vec(vb)}, M{make_mat(ma)}, P{make_mat(mb)}, U{}
  {
    U[0] = 9;
    for (sz i = 0; i < KK; ++i)
    {
      U[1 + i] = ma[i];
      U[1 + KK + i] = mb[i];
    }
    U[ulen - 1] = 8;
  }
  world(world const &) = delete;
  world &operator=(world const &) = delete;
};

template <typename V>
ints vals(V const &v)
{
  ints r;
  r.reserve(V::static_size::value);
  for (sz i = 0; i < V::static_size::value; ++i)
    r.push_back(static_cast<long>(v.get_unsafe(i)));
  return r;
}

// matrix: at_r_c<I, J> for every static index pair, row-major
template <typename M>
ints mvals(M const &m)
{
  constexpr sz R = M::static_rows::value;
  constexpr sz C = M::static_columns::value;
  ints g;
  g.reserve(R * C);
  [&]<std::size_t... A>(std::index_sequence<A...>) { (g.push_back(static_cast<long>(fm::matrix::at_r_c<A / C, A % C>(m))), ...); }(
      std::make_index_sequence<R * C>{});
  return g;
}

template <typename O>
inline constexpr bool is_static_obj = fm::is_static_storage<typename std::remove_cv_t<O>::storage_type>::value;

// a reference to element i (< C) of a vector-like object: x() y() z() w() / w() h() d() on static objects, at<I> on views
template <fam K, typename O>
std::conditional_t<std::is_const_v<O>, T const &, T &> elem_ref(O &o, unsigned const i)
{
  constexpr sz N = O::static_size::value;
  if constexpr (is_static_obj<O>)
  {
    if constexpr (K == fam::vector)
    {
      if (i == 0)
        return o.x();
      if constexpr (N >= 2)
        if (i == 1)
          return o.y();
      if constexpr (N >= 3)
        if (i == 2)
          return o.z();
      if constexpr (N >= 4)
        if (i == 3)
          return o.w();
    }
    else
    {
      if (i == 0)
        return o.w();
      if constexpr (N >= 2)
        if (i == 1)
          return o.h();
      if constexpr (N >= 3)
        if (i == 2)
          return o.d();
    }
  }
  // views: the free function at<I> (checked_access<I>) for I = i
  using ref_type = std::conditional_t<std::is_const_v<O>, T const &, T &>;
  std::remove_reference_t<ref_type> *res = nullptr;
  [&]<std::size_t... I>(std::index_sequence<I...>)
  {
    (
        [&]
        {
          if (i == I)
          {
            if constexpr (K == fam::vector)
              res = &static_cast<ref_type>(fm::vector::at<I>(o));
            else
              res = &static_cast<ref_type>(fm::dim::at<I>(o));
          }
        }(),
        ...);
  }(std::make_index_sequence<N>{});
  return res != nullptr ? *res : o.get_unsafe(i);
}

// a reference to element (i / C, i % C) of a matrix: m00() ... m33() on static matrices, at_r_c<R, C> on views
template <typename O>
std::conditional_t<std::is_const_v<O>, T const &, T &> mat_elem_ref(O &o, unsigned const i)
{
  constexpr sz R = O::static_rows::value;
  constexpr sz C = O::static_columns::value;
  if constexpr (is_static_obj<O>)
  {
#define C14_MRC(r, c)                      \
  if constexpr (R > r && C > c)            \
    if (i == r * C + c)                    \
      return o.m##r##c();
    C14_MRC(0, 0) C14_MRC(0, 1) C14_MRC(0, 2) C14_MRC(0, 3) C14_MRC(1, 0) C14_MRC(1, 1) C14_MRC(1, 2) C14_MRC(1, 3) C14_MRC(2, 0)
        C14_MRC(2, 1) C14_MRC(2, 2) C14_MRC(2, 3) C14_MRC(3, 0) C14_MRC(3, 1) C14_MRC(3, 2) C14_MRC(3, 3)
#undef C14_MRC
  }
  // views: the free function at_r_c<R, C>
  using ref_type = std::conditional_t<std::is_const_v<O>, T const &, T &>;
  std::remove_reference_t<ref_type> *res = nullptr;
  [&]<std::size_t... A>(std::index_sequence<A...>)
  {
    (
        [&]
        {
          if (i == A)
            res = &static_cast<ref_type>(fm::matrix::at_r_c<A / C, A % C>(o));
        }(),
        ...);
  }(std::make_index_sequence<R * C>{});
  return res != nullptr ? *res : o.get_unsafe(i / C).get_unsafe(i % C);
}

// calls f(object &) with the vector-like object the descriptor names; false if there is no such object
template <typename W, typename F>
bool with_vec(W &w, std::string const &d, F f)
{
  constexpr sz R = W::rows;
  constexpr sz C = W::cols;
  if (d.empty())
    return false;
  if (d == "A")
  {
    f(w.A);
    return true;
  }
  if (d == "B")
  {
    f(w.B);
    return true;
  }
  char const c = d[0];
  std::string const rest = d.substr(1);
  if (c == 'U' || c == 'C')
  {
    auto const o = nat(rest);
    if (!o || *o + C > W::ulen)
      return false;
    if (c == 'U')
    {
      typename W::template obj_t<mut_view<T, C>> v{mut_view<T, C>{w.U.data() + *o}};
      f(v);
    }
    else
    {
      typename W::template obj_t<const_view<T, C>> const v{const_view<T, C>{w.U.data() + *o}};
      f(v);
    }
    return true;
  }
  if constexpr (W::family == fam::vector)
  {
    if (c == 'M' || c == 'N' || c == 'P')
    {
      auto const i = nat(rest);
      if (!i || *i >= R) // get_unsafe(i) has the precondition i < R
        return false;
      if (c == 'M')
      {
        auto row = w.M.get_unsafe(*i);
        f(row);
      }
      else if (c == 'P')
      {
        // rows of P through the free function at_r<I> (checked_access<I>), rows of M through get_unsafe(i)
        [&]<std::size_t... I>(std::index_sequence<I...>)
        {
          (
              [&]
              {
                if (*i == I)
                {
                  auto row = fm::matrix::at_r<I>(w.P);
                  f(row);
                }
              }(),
              ...);
        }(std::make_index_sequence<R>{});
      }
      else
      {
        auto const row = std::as_const(w.M).get_unsafe(*i);
        f(row);
      }
      return true;
    }
    if (c == 'Q')
    {
      std::size_t const dot = rest.find('.');
      if (dot == std::string::npos)
        return false;
      auto const o = nat(rest.substr(0, dot)), i = nat(rest.substr(dot + 1));
      if (!o || !i || *o + W::KK > W::ulen || *i >= R)
        return false;
      typename W::mview_t q{mut_view<T, W::KK>{w.U.data() + *o}};
      auto row = q.get_unsafe(*i);
      f(row);
      return true;
    }
  }
  return false;
}

template <typename W, typename F>
bool with_mat(W &w, std::string const &d, F f)
{
  if constexpr (W::family == fam::vector)
  {
    if (d == "M")
    {
      f(w.M);
      return true;
    }
    if (d == "P")
    {
      f(w.P);
      return true;
    }
    if (d.size() >= 2 && (d[0] == 'V' || d[0] == 'W'))
    {
      auto const o = nat(d.substr(1));
      if (!o || *o + W::KK > W::ulen)
        return false;
      if (d[0] == 'V')
      {
        typename W::mview_t v{mut_view<T, W::KK>{w.U.data() + *o}};
        f(v);
      }
      else
      {
        typename W::cview_t const v{const_view<T, W::KK>{w.U.data() + *o}};
        f(v);
      }
      return true;
    }
  }
  return false;
}

enum class st
{
  bad,
  ok,
  oob
};

// a scalar argument: `k<int>` an independent variable, `@X.<i>` a reference to element i of X
template <typename W, typename G>
st with_scalar(W &w, std::string const &x, G g)
{
  if (x.size() < 2)
    return st::bad;
  if (x[0] == 'k')
  {
    auto const k = scalar(x.substr(1));
    if (!k)
      return st::bad;
    T const value{*k};
    g(value);
    return st::ok;
  }
  if (x[0] != '@')
    return st::bad;
  std::size_t const dot = x.rfind('.');
  if (dot == std::string::npos || dot < 2)
    return st::bad;
  auto const i = nat(x.substr(dot + 1));
  std::string const desc = x.substr(1, dot - 1);
  if (!i)
    return st::bad;
  st res = st::bad;
  if (with_vec(
          w,
          desc,
          [&](auto &xo)
          {
            if (*i >= W::cols) // precondition of get_unsafe
              res = st::oob;
            else
            {
              T const &ref = elem_ref<W::family>(xo, *i);
              g(ref);
              res = st::ok;
            }
          }))
    return res;
  if (with_mat(
          w,
          desc,
          [&](auto &xo)
          {
            if (*i >= W::KK)
              res = st::oob;
            else
            {
              T const &ref = mat_elem_ref(xo, *i);
              g(ref);
              res = st::ok;
            }
          }))
    return res;
  return st::bad;
}

struct stmt_result
{
  std::optional<ints> tv; // the values seen through the target afterwards; nothing: precondition of get_unsafe violated, not executed
  bool ret = true; // the operator returned a reference to the target object
};

std::optional<std::pair<unsigned, long>> index_value(std::string const &x)
{
  std::size_t const colon = x.find(':');
  if (colon == std::string::npos)
    return std::nullopt;
  auto const i = nat(x.substr(0, colon));
  auto const k = scalar(x.substr(colon + 1));
  if (!i || !k)
    return std::nullopt;
  return std::make_pair(*i, *k);
}

// T op X with a vector-like (IsMat = false) or a matrix target
template <bool IsMat, typename W>
st exec_stmt(W &w, std::string const &t, std::string const &op, std::string const &x, stmt_result &out)
{
  st status = st::bad;
  auto const read = [](auto const &o)
  {
    if constexpr (IsMat)
      return mvals(o);
    else
      return vals(o);
  };
  auto const body = [&](auto &tobj)
  {
    using TO = std::remove_reference_t<decltype(tobj)>;
    if constexpr (std::is_const_v<TO>)
    {
      status = st::bad; // read-only objects are not targets
    }
    else
    {
      if (op == "smul")
      {
        status = with_scalar(
            w,
            x,
            [&](T const &s)
            {
              auto &r = (tobj *= s);
              out.ret = &r == &tobj;
              out.tv = read(tobj);
            });
      }
      else if (op == "set")
      {
        auto const ik = index_value(x);
        if (!ik)
          return;
        if (ik->first >= (IsMat ? W::KK : W::cols))
        {
          status = st::oob;
          return;
        }
        if constexpr (IsMat)
          mat_elem_ref(tobj, ik->first) = ik->second;
        else
          elem_ref<W::family>(tobj, ik->first) = ik->second;
        out.tv = read(tobj);
        status = st::ok;
      }
      else if (op == "add" || op == "sub" || op == "asg" || op == "ctor" || (!IsMat && op == "mul"))
      {
        auto const inner = [&](auto &xobj)
        {
          auto const &xc = xobj;
          if (op == "add")
          {
            auto &r = (tobj += xc);
            out.ret = &r == &tobj;
          }
          else if (op == "sub")
          {
            auto &r = (tobj -= xc);
            out.ret = &r == &tobj;
          }
          else if (op == "asg")
          {
            // same storage type: the implicit copy assignment; different storage type: the converting operator=
            auto &r = (tobj = xc);
            out.ret = &r == &tobj;
          }
          else if (op == "ctor")
          {
            // the converting constructor (detail::copy) into a static temporary, which is then assigned
            using static_type = std::conditional_t<IsMat, typename W::mat_t, typename W::vec_t>;
            auto &r = (tobj = static_type(xc));
            out.ret = &r == &tobj;
          }
          else
          {
            if constexpr (!IsMat)
            {
              auto &r = (tobj *= xc);
              out.ret = &r == &tobj;
            }
          }
          out.tv = read(tobj);
          status = st::ok;
        };
        if constexpr (IsMat)
          with_mat(w, x, inner);
        else
          with_vec(w, x, inner);
      }
    }
  };
  if constexpr (IsMat)
    with_mat(w, t, body);
  else
    with_vec(w, t, body);
  return status;
}

bool is_mat_target(std::string const &t) { return t == "M" || t == "P" || (!t.empty() && t[0] == 'V'); }

struct stmt
{
  std::string t, op, x;
};

template <typename W>
bool run_stmts(W &w, std::vector<stmt> const &stmts, std::vector<stmt_result> &outs)
{
  for (auto const &s : stmts)
  {
    stmt_result r;
    st const status = is_mat_target(s.t) ? exec_stmt<true>(w, s.t, s.op, s.x, r) : exec_stmt<false>(w, s.t, s.op, s.x, r);
    if (status == st::bad)
      return false;
    if (status == st::oob)
      r.tv.reset();
    outs.push_back(r);
  }
  return true;
}

// the cells of the world in the order A, B, M, P, U
template <typename W>
std::array<ints, 5> cells(W const &w)
{
  return {vals(w.A), vals(w.B), mvals(w.M), mvals(w.P), ints(w.U.begin(), w.U.end())};
}

template <typename W>
std::string mem_line(ints const &va, ints const &vb, ints const &ma, ints const &mb, std::vector<stmt> const &stmts)
{
  W w{va, vb, ma, mb};
  std::vector<stmt_result> outs;
  if (!run_stmts(w, stmts, outs))
    return "bad-op";
  auto const cs = cells(w);
  std::string r = "w=";
  for (std::size_t i = 0; i < cs.size(); ++i)
    r += (i ? "/" : "") + show(cs[i]);
  r += " t=";
  for (std::size_t i = 0; i < outs.size(); ++i)
    r += (i ? "|" : "") + (outs[i].tv ? show(*outs[i].tv) : std::string{"oob"});
  r += " r=";
  for (auto const &o : outs)
    r += o.ret ? '1' : '0';
  return r;
}

inline std::uint64_t mix(std::uint64_t h, long x) { return (h ^ static_cast<std::uint64_t>(static_cast<std::int64_t>(x))) * 1099511628211ULL; }

ints enum_a(sz c, unsigned idx)
{
  ints r;
  r.reserve(c);
  for (sz j = 0; j < c; ++j)
  {
    r.push_back(static_cast<long>(idx % 4U) - 1);
    idx /= 4U;
  }
  return r;
}
ints enum_bq(sz c, unsigned idx)
{
  ints r;
  r.reserve(c);
  for (sz j = 0; j < c; ++j)
  {
    r.push_back(idx % 2U == 1U ? 2 : -1);
    idx /= 2U;
  }
  return r;
}
ints derive_ma(sz r, ints const &a, ints const &b)
{
  ints m;
  m.reserve(r * a.size());
  for (sz i = 0; i < r; ++i)
    for (std::size_t j = 0; j < a.size(); ++j)
      m.push_back(i == 0 ? a[j] : i == 1 ? b[j] : i == 2 ? a[j] + 2 * b[j] + 3 : 2 * a[j] - b[j] - 5);
  return m;
}
ints derive_mb(sz r, ints const &a, ints const &b)
{
  ints m;
  m.reserve(r * a.size());
  for (sz i = 0; i < r; ++i)
    for (std::size_t j = 0; j < a.size(); ++j)
      m.push_back(10 * (static_cast<long>(i) + 1) + static_cast<long>(j) + b[j] - a[j]);
  return m;
}

ints enum_bs(sz c, unsigned idx)
{
  ints r;
  r.reserve(c);
  for (sz j = 0; j < c; ++j)
    r.push_back((j + idx) % 2U == 1U ? 2 : -1);
  return r;
}

template <typename W>
std::string mems_digest(char const e, std::vector<stmt> const &stmts)
{
  constexpr sz R = W::rows;
  constexpr sz C = W::cols;
  bool const all_b = e == 'f' || C <= 2;
  unsigned const na = 1U << (2 * C), nb = all_b ? na : e == 'q' ? (1U << C) : 2U;
  std::uint64_t h = vh::fnv_init;
  for (unsigned ia = 0; ia < na; ++ia)
    for (unsigned ib = 0; ib < nb; ++ib)
    {
      ints const a = enum_a(C, ia), b = all_b ? enum_a(C, ib) : e == 'q' ? enum_bq(C, ib) : enum_bs(C, ib);
      W w{a, b, derive_ma(R, a, b), derive_mb(R, a, b)};
      std::vector<stmt_result> outs;
      if (!run_stmts(w, stmts, outs))
        return "bad-op";
      for (auto const &seg : cells(w))
        for (long e : seg)
          h = mix(h, e);
      for (auto const &o : outs)
      {
        if (o.tv)
          for (long e : *o.tv)
            h = mix(h, e);
        else
          h = mix(h, -7777);
        h = mix(h, o.ret ? 1 : 0);
      }
    }
  return "D " + vh::hex64(h);
}

constexpr bool shape_ok(fam k, sz r, sz c)
{
  unsigned const code = r * 10 + c;
  if (k == fam::dim)
    return code == 31 || code == 32 || code == 33 || code == 34;
  return code == 31 || code == 32 || code == 33 || code == 34 || code == 22 || code == 23 || code == 44 || code == 11;
}

// calls f(world type tag) for the instantiated worlds
template <fam K, typename F>
std::string with_world(unsigned r, unsigned c, F f)
{
  std::string res = "bad-op";
  [&]<std::size_t... I>(std::index_sequence<I...>)
  {
    (
        [&]
        {
          constexpr sz R = I / 4 + 1, C = I % 4 + 1;
          if constexpr (shape_ok(K, R, C))
            if (r == R && c == C)
              res = f(static_cast<world<K, R, C> *>(nullptr));
        }(),
        ...);
  }(std::make_index_sequence<16>{});
  return res;
}

std::optional<std::vector<stmt>> stmts_of(std::vector<std::string> const &t, std::size_t from)
{
  if (t.size() <= from || (t.size() - from) % 3 != 0 || (t.size() - from) / 3 > 6)
    return std::nullopt;
  std::vector<stmt> r;
  for (std::size_t i = from; i < t.size(); i += 3)
    r.push_back(stmt{t[i], t[i + 1], t[i + 2]});
  return r;
}

template <fam K>
std::string member_family(std::vector<std::string> const &t)
{
  auto const r = nat(t[2]), c = nat(t[3]);
  if (!r || !c || *r < 1 || *r > 4 || *c < 1 || *c > 4)
    return "bad-op";
  if (t[0] == "mem")
  {
    if (t.size() < 11)
      return "bad-op";
    auto const va = int_list(t[4], *c), vb = int_list(t[5], *c), ma = int_list(t[6], *r * *c), mb = int_list(t[7], *r * *c);
    auto const stmts = stmts_of(t, 8);
    if (!va || !vb || !ma || !mb || !stmts)
      return "bad-op";
    return with_world<K>(*r, *c, [&]<typename W>(W *) { return mem_line<W>(*va, *vb, *ma, *mb, *stmts); });
  }
  if (t.size() < 8 || (t[4] != "f" && t[4] != "q" && t[4] != "s"))
    return "bad-op";
  auto const stmts = stmts_of(t, 5);
  if (!stmts)
    return "bad-op";
  return with_world<K>(*r, *c, [&]<typename W>(W *) { return mems_digest<W>(t[4][0], *stmts); });
}
}

// called by harness/c14.cpp for the ops `mem` and `mems`
std::string c14_member_handle(std::vector<std::string> const &t)
{
  if (t.size() < 5)
    return "bad-op";
  if (t[1] == "v")
    return member_family<fam::vector>(t);
  if (t[1] == "d")
    return member_family<fam::dim>(t);
  return "bad-op";
}
