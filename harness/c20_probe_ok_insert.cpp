// control: operator<< is well-formed (and is tied: `q` actions of the script lines)
#include "c20_probe.hpp"
int main()
{
  D const d{P::min{0}, P::max{1}};
  std::ostringstream s;
  s << d;
  return static_cast<int>(s.str().size());
}
