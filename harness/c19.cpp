// C19 correspondence harness: runs the real fcppt::log::context / fcppt::log::object / level_stream on the
// operation lines described in lean/FcpptModel/Drv/C19.lean and prints the same canonical result lines.
//
// State: one context at a time (recreated by `reset` / `ctx`), six std::ostringstream sinks the context's level
// streams write into, and the log objects created so far (ids in creation order, restarting with the context).
#include "common/vh.hpp"

#include <fcppt/exception.hpp>
#include <fcppt/make_ref.hpp>
#include <fcppt/string.hpp>
#include <fcppt/cast/enum_to_int.hpp>
#include <fcppt/cast/int_to_enum.hpp>
#include <fcppt/enum/array_init.hpp>
#include <fcppt/log/context.hpp>
#include <fcppt/log/debug.hpp>
#include <fcppt/log/error.hpp>
#include <fcppt/log/fatal.hpp>
#include <fcppt/log/info.hpp>
#include <fcppt/log/level.hpp>
#include <fcppt/log/level_stream.hpp>
#include <fcppt/log/level_stream_array.hpp>
#include <fcppt/log/location.hpp>
#include <fcppt/log/name.hpp>
#include <fcppt/log/object.hpp>
#include <fcppt/log/optional_level.hpp>
#include <fcppt/log/out.hpp>
#include <fcppt/log/parameters.hpp>
#include <fcppt/log/verbose.hpp>
#include <fcppt/log/warning.hpp>
#include <fcppt/log/format/default_level.hpp>
#include <fcppt/log/format/function.hpp>
#include <fcppt/log/format/optional_function.hpp>
#include <fcppt/optional/maybe.hpp>

#include <array>
#include <cstddef>
#include <exception>
#include <memory>
#include <optional>
#include <sstream>
#include <string>
#include <utility>
#include <vector>

namespace
{
constexpr unsigned level_count = 6;

// ---- state -------------------------------------------------------------------------------------------------
std::array<std::ostringstream, level_count> sinks; // outlive every context
std::unique_ptr<fcppt::log::context> context;
std::vector<std::unique_ptr<fcppt::log::object>> objects;

fcppt::log::level to_level(unsigned const l) { return static_cast<fcppt::log::level>(l); }

fcppt::log::format::optional_function stream_formatter(char const cfg, fcppt::log::level const l)
{
  unsigned const i = static_cast<unsigned>(l);
  if (cfg == 'D' || (cfg == 'M' && i % 2U == 0U))
    return fcppt::log::format::optional_function{fcppt::log::format::default_level(l)};
  return fcppt::log::format::optional_function{};
}

void fresh(fcppt::log::optional_level const &root, char const cfg)
{
  // objects refer to the context (context_reference, tree node): destroy them first
  objects.clear();
  context.reset();
  for (auto &s : sinks)
  {
    s.str("");
    s.clear();
  }
  context = std::make_unique<fcppt::log::context>(
      root,
      fcppt::enum_::array_init<fcppt::log::level_stream_array>([cfg](fcppt::log::level const l) {
        return fcppt::log::level_stream(sinks[static_cast<std::size_t>(l)], stream_formatter(cfg, l));
      }));
}

// ---- parsing -----------------------------------------------------------------------------------------------
// The grammar of Lean's String.toNat? (4.33, String.Slice.isNat): decimal digits, a single `_` allowed after a
// digit, last character a digit.  (The generators only write plain decimal numbers; this keeps malformed-line
// answers identical as well.)  The value saturates; every use compares it with a small bound.
std::optional<unsigned long> parse_nat(std::string const &s)
{
  constexpr unsigned long cap = 1000000000UL;
  unsigned long r = 0;
  bool last_was_digit = false;
  for (char const c : s)
  {
    if (c == '_')
    {
      if (!last_was_digit)
        return std::nullopt;
      last_was_digit = false;
    }
    else if (c >= '0' && c <= '9')
    {
      last_was_digit = true;
      r = r >= cap ? cap : r * 10UL + static_cast<unsigned long>(c - '0');
    }
    else
      return std::nullopt;
  }
  if (!last_was_digit)
    return std::nullopt;
  return r;
}

std::optional<unsigned> parse_lvl_nat(std::string const &s)
{
  auto const n = parse_nat(s);
  if (!n || *n >= level_count)
    return std::nullopt;
  return static_cast<unsigned>(*n);
}

// outer optional: parse ok?; inner: fcppt::log::optional_level
std::optional<fcppt::log::optional_level> parse_level(std::string const &s)
{
  if (s == "-")
    return fcppt::log::optional_level{};
  auto const n = parse_lvl_nat(s);
  if (!n)
    return std::nullopt;
  return fcppt::log::optional_level{to_level(*n)};
}

fcppt::log::name parse_name(std::string const &s) { return fcppt::log::name{s == "_" ? fcppt::string{} : s}; }

std::optional<fcppt::log::location> parse_loc(std::string const &s)
{
  if (s == "-")
    return fcppt::log::location{};
  std::vector<std::string> parts;
  std::size_t pos = 0;
  while (true)
  {
    std::size_t const next = s.find('.', pos);
    parts.push_back(s.substr(pos, next == std::string::npos ? next : next - pos));
    if (next == std::string::npos)
      break;
    pos = next + 1;
  }
  for (auto const &p : parts)
    if (p.empty())
      return std::nullopt;
  // two ways of building the same location: location{} /= name ..., or location(name) / name / ...
  if (parts.size() % 2U == 1U)
  {
    fcppt::log::location r{};
    for (auto const &p : parts)
      r /= parse_name(p);
    return r;
  }
  fcppt::log::location r{parse_name(parts[0])};
  for (std::size_t i = 1; i < parts.size(); ++i)
    r = std::move(r) / parse_name(parts[i]);
  return r;
}

fcppt::log::format::optional_function parse_fmt(std::string const &s)
{
  if (s == "-")
    return fcppt::log::format::optional_function{};
  return fcppt::log::format::optional_function{fcppt::log::format::function{
      [tag = s](fcppt::string const &t) -> fcppt::string { return tag + "<" + t + ">"; }}};
}

// ---- canonical text ----------------------------------------------------------------------------------------
std::string show_level(fcppt::log::optional_level const &l)
{
  return fcppt::optional::maybe(
      l,
      [] { return std::string{"-"}; },
      [](fcppt::log::level const e) { return std::to_string(static_cast<unsigned>(e)); });
}

std::string esc(std::string const &s)
{
  std::string r;
  for (char const c : s)
  {
    if (c == '\\')
      r += "\\\\";
    else if (c == '\n')
      r += "\\n";
    else
      r += c;
  }
  return r;
}

std::string obj_line(fcppt::log::object const &o)
{
  std::string bits;
  for (unsigned k = 0; k < level_count; ++k)
    bits += o.enabled(to_level(k)) ? '1' : '0';
  return "lvl=" + show_level(o.level()) + " en=" + bits;
}

std::string add_obj(std::unique_ptr<fcppt::log::object> &&o)
{
  std::size_t const id = objects.size();
  objects.push_back(std::move(o));
  return "obj=" + std::to_string(id) + " " + obj_line(*objects.back());
}

void log_macro(fcppt::log::object &o, unsigned const l, std::string const &msg)
{
  switch (l)
  {
  case 0: FCPPT_LOG_VERBOSE(o, fcppt::log::out << msg) break;
  case 1: FCPPT_LOG_DEBUG(o, fcppt::log::out << msg) break;
  case 2: FCPPT_LOG_INFO(o, fcppt::log::out << msg) break;
  case 3: FCPPT_LOG_WARNING(o, fcppt::log::out << msg) break;
  case 4: FCPPT_LOG_ERROR(o, fcppt::log::out << msg) break;
  case 5: FCPPT_LOG_FATAL(o, fcppt::log::out << msg) break;
  default: break;
  }
}

std::string do_log(bool const macro, std::string const &id, std::string const &lvl, std::string const &msg)
{
  auto const i = parse_nat(id);
  auto const l = parse_lvl_nat(lvl);
  if (!i || !l || *i >= objects.size())
    return "bad-op";
  fcppt::log::object &o = *objects[*i];
  for (auto &s : sinks)
  {
    s.str("");
    s.clear();
  }
  if (macro)
    log_macro(o, *l, msg);
  else
    o.log(to_level(*l), fcppt::log::out << msg);
  std::string r;
  for (unsigned k = 0; k < level_count; ++k)
  {
    std::string const text = sinks[k].str();
    if (text.empty())
      continue;
    if (!r.empty())
      r += ';';
    r += std::to_string(k) + "|" + esc(text);
  }
  return "emit=" + (r.empty() ? std::string{"-"} : r);
}

std::string handle_inner(std::vector<std::string> const &t)
{
  if (t.empty())
    return "bad-op";
  std::string const &op = t[0];
  if (op == "reset" && t.size() == 1)
  {
    fresh(fcppt::log::optional_level{fcppt::log::level::warning}, 'D');
    return "ok";
  }
  if (op == "ctx" && t.size() == 3)
  {
    auto const root = parse_level(t[1]);
    if (!root || !(t[2] == "D" || t[2] == "N" || t[2] == "M"))
      return "bad-op";
    fresh(*root, t[2][0]);
    return "ok";
  }
  if (!context) // the Lean driver starts with the `reset` state
    fresh(fcppt::log::optional_level{fcppt::log::level::warning}, 'D');
  if (op == "set" && t.size() == 3)
  {
    auto const loc = parse_loc(t[1]);
    auto const lvl = parse_level(t[2]);
    if (!loc || !lvl)
      return "bad-op";
    context->set(*loc, *lvl);
    return "ok";
  }
  if (op == "get" && t.size() == 2)
  {
    auto const loc = parse_loc(t[1]);
    if (!loc)
      return "bad-op";
    fcppt::log::context const &c = *context;
    return "lvl=" + show_level(c.get(*loc));
  }
  if (op == "objr" && t.size() == 3)
    return add_obj(std::make_unique<fcppt::log::object>(
        fcppt::make_ref(*context), fcppt::log::parameters{parse_name(t[1]), parse_fmt(t[2])}));
  if (op == "objl" && t.size() == 4)
  {
    auto const loc = parse_loc(t[1]);
    if (!loc)
      return "bad-op";
    return add_obj(std::make_unique<fcppt::log::object>(
        fcppt::make_ref(*context), *loc, fcppt::log::parameters{parse_name(t[2]), parse_fmt(t[3])}));
  }
  if (op == "objc" && t.size() == 4)
  {
    auto const i = parse_nat(t[1]);
    if (!i || *i >= objects.size())
      return "bad-op";
    fcppt::log::object const &parent = *objects[*i];
    return add_obj(
        std::make_unique<fcppt::log::object>(parent, fcppt::log::parameters{parse_name(t[2]), parse_fmt(t[3])}));
  }
  if (op == "lvl" && t.size() == 2)
  {
    auto const i = parse_nat(t[1]);
    if (!i || *i >= objects.size())
      return "bad-op";
    return obj_line(*objects[*i]);
  }
  if ((op == "log" || op == "logm") && t.size() == 4)
    return do_log(op == "logm", t[1], t[2], t[3]);
  return "bad-op";
}

std::string handle(std::vector<std::string> const &t)
{
  try
  {
    return handle_inner(t);
  }
  catch (fcppt::exception const &)
  {
    return "exc:fcppt";
  }
  catch (std::bad_alloc const &)
  {
    return "exc:bad_alloc";
  }
  catch (std::exception const &)
  {
    return "exc:std";
  }
  catch (...)
  {
    return "exc:unknown";
  }
}
}

int main()
{
  int const r = vh::run(handle);
  // destroy in the right order before the static sinks go away (keeps LeakSanitizer exact)
  objects.clear();
  context.reset();
  return r;
}
