// C19 correspondence harness: runs the real fcppt::log::context / fcppt::log::object / level_stream on the
// operation lines described in lean/FcpptModel/Drv/C19.lean and prints the same canonical result lines.
//
// State: one context at a time (recreated by `reset` / `ctx`), six std::ostringstream sinks the context's level
// streams write into, and the log objects created so far (ids in creation order, restarting with the context).
#include "common/vh.hpp"
#include "common/route.hpp"

#include <fcppt/exception.hpp>
#include <fcppt/make_ref.hpp>
#include <fcppt/string.hpp>
#include <fcppt/cast/enum_to_int.hpp>
#include <fcppt/cast/int_to_enum.hpp>
#include <fcppt/enum/array_init.hpp>
#include <fcppt/log/context.hpp>
#include <fcppt/log/debug.hpp>
#include <fcppt/log/error.hpp>
#include <fcppt/log/fatal.hpp>
#include <fcppt/log/info.hpp>
#include <fcppt/log/level.hpp>
#include <fcppt/log/level_stream.hpp>
#include <fcppt/log/level_stream_array.hpp>
#include <fcppt/log/location.hpp>
#include <fcppt/log/name.hpp>
#include <fcppt/log/object.hpp>
#include <fcppt/log/optional_level.hpp>
#include <fcppt/log/out.hpp>
#include <fcppt/log/parameters.hpp>
#include <fcppt/log/verbose.hpp>
#include <fcppt/log/warning.hpp>
#include <fcppt/log/default_level_streams.hpp>
#include <fcppt/log/default_stream.hpp>
#include <fcppt/log/level_from_string.hpp>
#include <fcppt/log/level_input.hpp>
#include <fcppt/log/level_output.hpp>
#include <fcppt/log/level_to_string.hpp>
#include <fcppt/log/parameters_no_function.hpp>
#include <fcppt/log/format/chain.hpp>
#include <fcppt/log/format/default_level.hpp>
#include <fcppt/log/format/function.hpp>
#include <fcppt/log/format/inserter.hpp>
#include <fcppt/log/format/optional_function.hpp>
#include <fcppt/log/format/prefix.hpp>
#include <fcppt/log/format/prefix_string.hpp>
#include <fcppt/log/format/suffix_string.hpp>
#include <fcppt/log/format/time_stamp.hpp>
#include <fcppt/io/cerr.hpp>
#include <fcppt/io/clog.hpp>
#include <fcppt/optional/maybe.hpp>
#include <fcppt/time/localtime.hpp>
#include <fcppt/time/output_tm.hpp>

#include <array>
#include <cstdint>
#include <ctime>
#include <cstddef>
#include <exception>
#include <memory>
#include <optional>
#include <sstream>
#include <string>
#include <string_view>
#include <utility>
#include <vector>

namespace
{
constexpr unsigned level_count = 6;

// ---- state -------------------------------------------------------------------------------------------------
std::array<std::ostringstream, level_count> sinks; // outlive every context

// ---- special-member routing of the value classes of fcppt::log (common/route.hpp, notes/sweep.md) --------------------
// Every name, location, optional level, optional formatter function, parameters object and level_stream the harness
// builds from an operation's tokens travels through a special member of its class before it is used; the route is a
// function of the token.  Mismatches are collected here and appended to the operation's result line by handle().
std::string sm_mismatch;
unsigned sm_op_salt{0U}; // a hash of the operation line's tokens (set by handle())
unsigned sm_seq{0U}; // the number of routed objects of this operation so far (reset by handle())

unsigned sm_route(unsigned const local) { return sm_op_salt + local + (sm_seq++) * 5U; }


std::string show_fn_raw(fcppt::log::format::optional_function const &f)
{
  return fcppt::optional::maybe(
      f, [] { return std::string{"-"}; }, [](fcppt::log::format::function const &g) { return g(fcppt::string{"x"}); });
}

fcppt::log::format::optional_function other_fn(fcppt::log::format::optional_function const &f, unsigned const r)
{
  // a set function is paired with nothing (even) or with another function (odd); nothing is paired with a function
  if (f.has_value() && (r / vh::sm::copy_routes) % 2U == 0U)
    return fcppt::log::format::optional_function{};
  return fcppt::log::format::optional_function{
      fcppt::log::format::function{[](fcppt::string const &t) -> fcppt::string { return "zq(" + t + ")"; }}};
}

fcppt::log::format::optional_function route_fn(fcppt::log::format::optional_function const &f, unsigned const r)
{
  return vh::sm::checked(
      sm_mismatch, "log::format::optional_function", r, f, [&f, r] { return other_fn(f, r); }, show_fn_raw);
}

fcppt::log::name route_name(fcppt::log::name const &n, unsigned const r)
{
  return vh::sm::checked(
      sm_mismatch,
      "log::name",
      r,
      n,
      [&n] { return fcppt::log::name{n.get() + "zq"}; },
      [](fcppt::log::name const &x) { return x.get(); });
}

std::string show_loc_raw(fcppt::log::location const &l)
{
  std::string r{l.string() + "#"};
  for (auto it = l.begin(); it != l.end(); ++it)
    r += *it + "|";
  return r;
}

fcppt::log::location route_loc(fcppt::log::location const &l, unsigned const r)
{
  return vh::sm::checked(
      sm_mismatch,
      "log::location",
      r,
      l,
      [&l]
      {
        // the entries in reverse order and one more
        std::vector<fcppt::string> const es(l.begin(), l.end());
        fcppt::log::location o{fcppt::log::name{fcppt::string{"zq"}}};
        for (auto it = es.rbegin(); it != es.rend(); ++it)
          o /= fcppt::log::name{*it};
        return o;
      },
      show_loc_raw);
}

fcppt::log::optional_level route_level(fcppt::log::optional_level const &l, unsigned const r)
{
  return vh::sm::checked(
      sm_mismatch,
      "log::optional_level",
      r,
      l,
      [&l, r]
      {
        if (l.has_value() && (r / vh::sm::copy_routes) % 2U == 0U)
          return fcppt::log::optional_level{};
        return fcppt::log::optional_level{
            l.has_value() && l.get_unsafe() == fcppt::log::level::warning ? fcppt::log::level::debug : fcppt::log::level::warning};
      },
      [](fcppt::log::optional_level const &x)
      {
        return fcppt::optional::maybe(
            x, [] { return std::string{"-"}; }, [](fcppt::log::level const e) { return std::to_string(static_cast<unsigned>(e)); });
      });
}

fcppt::log::parameters route_params(fcppt::log::parameters const &p, unsigned const r)
{
  return vh::sm::checked(
      sm_mismatch,
      "log::parameters",
      r,
      p,
      [&p, r] { return fcppt::log::parameters{fcppt::log::name{p.name().get() + "zq"}, other_fn(p.formatter(), r)}; },
      [](fcppt::log::parameters const &x) { return x.name().get() + "#" + show_fn_raw(x.formatter()); });
}

std::ostringstream sm_other_sink; // the destination of the "other" level_stream; never written to

fcppt::log::level_stream route_stream(fcppt::log::level_stream const &s, unsigned const r)
{
  return vh::sm::checked(
      sm_mismatch,
      "log::level_stream",
      r,
      s,
      [&s, r] { return fcppt::log::level_stream{sm_other_sink, other_fn(s.formatter(), r)}; },
      [](fcppt::log::level_stream const &x)
      { return std::to_string(reinterpret_cast<std::uintptr_t>(&const_cast<fcppt::log::level_stream &>(x).get()) == reinterpret_cast<std::uintptr_t>(&sm_other_sink)) + "#" + show_fn_raw(x.formatter()); });
}

std::unique_ptr<fcppt::log::context> context;
std::vector<std::unique_ptr<fcppt::log::object>> objects;

fcppt::log::level to_level(unsigned const l) { return static_cast<fcppt::log::level>(l); }

fcppt::log::format::optional_function stream_formatter(char const cfg, fcppt::log::level const l)
{
  unsigned const i = static_cast<unsigned>(l);
  if (cfg == 'D' || (cfg == 'M' && i % 2U == 0U))
    return fcppt::log::format::optional_function{fcppt::log::format::default_level(l)};
  return fcppt::log::format::optional_function{};
}

void fresh(fcppt::log::optional_level const &root, char const cfg)
{
  // objects refer to the context (context_reference, tree node): destroy them first
  objects.clear();
  context.reset();
  for (auto &s : sinks)
  {
    s.str("");
    s.clear();
  }
  context = std::make_unique<fcppt::log::context>(
      root,
      fcppt::enum_::array_init<fcppt::log::level_stream_array>([cfg](fcppt::log::level const l) {
        // one of the six streams of every context - chosen by the operation line - travels through a special member
        if (static_cast<unsigned>(l) != sm_op_salt % level_count)
          return fcppt::log::level_stream(sinks[static_cast<std::size_t>(l)], stream_formatter(cfg, l));
        return route_stream(
            fcppt::log::level_stream(sinks[static_cast<std::size_t>(l)], stream_formatter(cfg, l)),
            sm_route(12U + static_cast<unsigned>(l)));
      }));
}

// ---- parsing -----------------------------------------------------------------------------------------------
// The grammar of Lean's String.toNat? (4.33, String.Slice.isNat): decimal digits, a single `_` allowed after a
// digit, last character a digit.  (The generators only write plain decimal numbers; this keeps malformed-line
// answers identical as well.)  The value saturates; every use compares it with a small bound.
std::optional<unsigned long> parse_nat(std::string const &s)
{
  constexpr unsigned long cap = 1000000000UL;
  unsigned long r = 0;
  bool last_was_digit = false;
  for (char const c : s)
  {
    if (c == '_')
    {
      if (!last_was_digit)
        return std::nullopt;
      last_was_digit = false;
    }
    else if (c >= '0' && c <= '9')
    {
      last_was_digit = true;
      r = r >= cap ? cap : r * 10UL + static_cast<unsigned long>(c - '0');
    }
    else
      return std::nullopt;
  }
  if (!last_was_digit)
    return std::nullopt;
  return r;
}

std::optional<unsigned> parse_lvl_nat(std::string const &s)
{
  auto const n = parse_nat(s);
  if (!n || *n >= level_count)
    return std::nullopt;
  return static_cast<unsigned>(*n);
}

// outer optional: parse ok?; inner: fcppt::log::optional_level
std::optional<fcppt::log::optional_level> parse_level(std::string const &s)
{
  if (s == "-")
    return route_level(fcppt::log::optional_level{}, sm_route(0U));
  auto const n = parse_lvl_nat(s);
  if (!n)
    return std::nullopt;
  return route_level(fcppt::log::optional_level{to_level(*n)}, sm_route(static_cast<unsigned>(*n)));
}

fcppt::log::name parse_name(std::string const &s)
{
  return route_name(fcppt::log::name{s == "_" ? fcppt::string{} : s}, sm_route(vh::sm::mix(1U, s)));
}

std::optional<fcppt::log::location> parse_loc(std::string const &s)
{
  if (s == "-")
    return route_loc(fcppt::log::location{}, sm_route(3U));
  std::vector<std::string> parts;
  std::size_t pos = 0;
  while (true)
  {
    std::size_t const next = s.find('.', pos);
    parts.push_back(s.substr(pos, next == std::string::npos ? next : next - pos));
    if (next == std::string::npos)
      break;
    pos = next + 1;
  }
  for (auto const &p : parts)
    if (p.empty())
      return std::nullopt;
  // two ways of building the same location: location{} /= name ..., or location(name) / name / ...
  if (parts.size() % 2U == 1U)
  {
    fcppt::log::location r{};
    for (auto const &p : parts)
      r /= parse_name(p);
    return route_loc(r, sm_route(vh::sm::mix(2U, s)));
  }
  fcppt::log::location r{parse_name(parts[0])};
  for (std::size_t i = 1; i < parts.size(); ++i)
    r = std::move(r) / parse_name(parts[i]);
  return route_loc(r, sm_route(vh::sm::mix(2U, s)));
}

std::vector<std::string> split(std::string const &s, char const sep)
{
  std::vector<std::string> parts;
  std::size_t pos = 0;
  while (true)
  {
    std::size_t const next = s.find(sep, pos);
    parts.push_back(s.substr(pos, next == std::string::npos ? next : next - pos));
    if (next == std::string::npos)
      break;
    pos = next + 1;
  }
  return parts;
}

// `-` | `P:<p>` (format::prefix) | `I:<pre>:<suf>` (format::inserter) | `L:<k>` (format::default_level) | tag
fcppt::log::format::optional_function parse_fmt0(std::string const &s)
{
  if (s == "-")
    return fcppt::log::format::optional_function{};
  std::vector<std::string> const parts = split(s, ':');
  if (parts.size() == 2 && parts[0] == "P")
    return fcppt::log::format::optional_function{
        fcppt::log::format::prefix(fcppt::log::format::prefix_string{parts[1]})};
  if (parts.size() == 3 && parts[0] == "I")
    return fcppt::log::format::optional_function{fcppt::log::format::inserter(
        fcppt::log::format::prefix_string{parts[1]}, fcppt::log::format::suffix_string{parts[2]})};
  if (parts.size() == 2 && parts[0] == "L")
    if (auto const l = parse_lvl_nat(parts[1]))
      return fcppt::log::format::optional_function{fcppt::log::format::default_level(to_level(*l))};
  return fcppt::log::format::optional_function{fcppt::log::format::function{
      [tag = s](fcppt::string const &t) -> fcppt::string { return tag + "<" + t + ">"; }}};
}

fcppt::log::format::optional_function parse_fmt(std::string const &s)
{
  return route_fn(parse_fmt0(s), sm_route(vh::sm::mix(4U, s)));
}

// ---- canonical text ----------------------------------------------------------------------------------------
std::string show_level(fcppt::log::optional_level const &l)
{
  return fcppt::optional::maybe(
      l,
      [] { return std::string{"-"}; },
      [](fcppt::log::level const e) { return std::to_string(static_cast<unsigned>(e)); });
}

std::string esc(std::string const &s)
{
  std::string r;
  for (char const c : s)
  {
    if (c == '\\')
      r += "\\\\";
    else if (c == '\n')
      r += "\\n";
    else
      r += c;
  }
  return r;
}

std::string show_name(std::string const &s) { return s.empty() ? std::string{"_"} : s; }

std::string show_opt(fcppt::log::format::optional_function const &f, std::string const &text)
{
  return fcppt::optional::maybe(
      f, [] { return std::string{"-"}; }, [&text](fcppt::log::format::function const &g) { return esc(g(text)); });
}

std::string obj_line(fcppt::log::object const &o)
{
  std::string bits;
  for (unsigned k = 0; k < level_count; ++k)
    bits += o.enabled(to_level(k)) ? '1' : '0';
  return "lvl=" + show_level(o.level()) + " en=" + bits;
}

std::string add_obj(std::unique_ptr<fcppt::log::object> &&o)
{
  std::size_t const id = objects.size();
  objects.push_back(std::move(o));
  return "obj=" + std::to_string(id) + " " + obj_line(*objects.back());
}

// how often the message expression of a FCPPT_LOG_* macro was evaluated
unsigned evaluations = 0;

std::string const &counted(std::string const &msg)
{
  ++evaluations;
  return msg;
}

void log_macro(fcppt::log::object &o, unsigned const l, std::string const &msg)
{
  switch (l)
  {
  case 0: FCPPT_LOG_VERBOSE(o, fcppt::log::out << counted(msg)) break;
  case 1: FCPPT_LOG_DEBUG(o, fcppt::log::out << counted(msg)) break;
  case 2: FCPPT_LOG_INFO(o, fcppt::log::out << counted(msg)) break;
  case 3: FCPPT_LOG_WARNING(o, fcppt::log::out << counted(msg)) break;
  case 4: FCPPT_LOG_ERROR(o, fcppt::log::out << counted(msg)) break;
  case 5: FCPPT_LOG_FATAL(o, fcppt::log::out << counted(msg)) break;
  default: break;
  }
}

// the sinks are empty between two operations: collect_sinks empties what it reports
void clear_sinks()
{
  for (auto &s : sinks)
    if (!s.view().empty() || !s.good())
    {
      s.str("");
      s.clear();
    }
}

std::string collect_sinks()
{
  std::string r;
  for (unsigned k = 0; k < level_count; ++k)
  {
    std::string_view const text = sinks[k].view();
    if (text.empty())
      continue;
    if (!r.empty())
      r += ';';
    r += std::to_string(k) + "|" + esc(std::string{text});
    sinks[k].str("");
    sinks[k].clear();
  }
  return "emit=" + (r.empty() ? std::string{"-"} : r);
}

fcppt::log::object *get_obj(std::string const &id)
{
  auto const i = parse_nat(id);
  if (!i || *i >= objects.size())
    return nullptr;
  return objects[*i].get();
}

enum class log_kind
{
  direct,
  macro,
  parts,
  assigned
};

std::string do_log(log_kind const kind, std::string const &id, std::string const &lvl, std::string const &msg, std::string const &msg2)
{
  fcppt::log::object *const o = get_obj(id);
  auto const l = parse_lvl_nat(lvl);
  if (o == nullptr || !l)
    return "bad-op";
  clear_sinks();
  switch (kind)
  {
  case log_kind::direct:
    o->log(to_level(*l), fcppt::log::out << msg);
    return collect_sinks();
  case log_kind::macro:
    evaluations = 0;
    log_macro(*o, *l, msg);
    return collect_sinks() + " ev=" + std::to_string(evaluations);
  case log_kind::parts:
    // several insertions of different types into one temporary_output (moved from insertion to insertion)
    o->log(to_level(*l), fcppt::log::out << msg << msg2.size() << msg2);
    return collect_sinks();
  case log_kind::assigned:
  {
    // move assignment of a temporary_output: the first text is gone
    fcppt::log::detail::temporary_output t{fcppt::log::out << msg};
    t = fcppt::log::out << msg2;
    o->log(to_level(*l), t);
    return collect_sinks();
  }
  }
  return "bad-op";
}

// ---- stateless part of the API --------------------------------------------------------------------------------
std::string level_stream_name(fcppt::io::ostream &s)
{
  if (&s == &fcppt::io::clog())
    return "clog";
  if (&s == &fcppt::io::cerr())
    return "cerr";
  return "other";
}

std::optional<std::string> stateless(std::vector<std::string> const &t)
{
  std::string const &op = t[0];
  if (op == "lfs" && t.size() == 2)
    return "lvl=" + show_level(fcppt::log::level_from_string(parse_name(t[1]).get()));
  if ((op == "lts" || op == "lout") && t.size() == 2)
  {
    auto const l = parse_lvl_nat(t[1]);
    if (!l)
      return "bad-op";
    if (op == "lts")
      return "name=" + std::string{fcppt::log::level_to_string(to_level(*l))};
    std::ostringstream out;
    out << to_level(*l);
    return "out=" + out.str();
  }
  if (op == "lin" && t.size() == 2)
  {
    if (t[1].empty() || t[1].back() != '$')
      return "bad-op";
    std::string text = t[1].substr(0, t[1].size() - 1);
    for (char &c : text)
      c = c == '_' ? ' ' : c == '~' ? '\n' : c;
    std::istringstream in{text};
    fcppt::log::level var = fcppt::log::level::fatal;
    in >> var;
    bool const fail = in.fail();
    std::string r = "lvl=" + std::to_string(static_cast<unsigned>(var)) + " fail=" + (fail ? "1" : "0");
    if (!fail)
    {
      in.clear();
      std::string rest;
      for (int c = in.get(); c != std::char_traits<char>::eof(); c = in.get())
        rest += static_cast<char>(c);
      for (char &c : rest)
        c = c == ' ' ? '_' : c == '\n' ? '~' : c;
      r += " rest=" + rest + "$";
    }
    return r;
  }
  if (op == "loc" && t.size() == 2)
  {
    std::optional<fcppt::log::location> cur;
    bool ok = true;
    for (std::string const &step : split(t[1], ','))
    {
      std::vector<std::string> const parts = split(step, ':');
      if (!cur)
      {
        if (step == "e")
          cur = fcppt::log::location{};
        else if (parts.size() == 2 && parts[0] == "n")
          cur = fcppt::log::location{parse_name(parts[1])};
        else
          return "bad-op";
      }
      else if (step == "x")
      {
        // the argument is built from an entry of the location itself
        fcppt::log::location &r = (*cur /= fcppt::log::name{cur->begin() == cur->end() ? fcppt::string{} : *cur->begin()});
        ok = ok && &r == &*cur;
      }
      else if (parts.size() == 2 && parts[0] == "d")
      {
        fcppt::log::location &r = (*cur /= parse_name(parts[1]));
        ok = ok && &r == &*cur; // operator/= returns its left operand
      }
      else if (parts.size() == 2 && parts[0] == "a")
        *cur = *cur / parse_name(parts[1]); // assigned to the object it was computed from
      else if (parts.size() == 2 && parts[0] == "m")
        *cur = std::move(*cur) / parse_name(parts[1]);
      else if (parts.size() == 2 && parts[0] == "s")
      {
        fcppt::log::location const before{*cur};
        fcppt::log::location const sum{before / parse_name(parts[1])};
        // operator/ leaves its (by-value) operand alone
        ok = ok && std::vector<std::string>(before.begin(), before.end()) == std::vector<std::string>(cur->begin(), cur->end());
        cur = sum;
      }
      else
        return "bad-op";
    }
    if (!cur)
      return "bad-op";
    std::string elems;
    std::size_t n = 0;
    for (auto it = cur->begin(); it != cur->end(); ++it, ++n)
      elems += (n == 0 ? "" : "|") + show_name(*it);
    return "str=" + show_name(cur->string()) + " n=" + std::to_string(n) + " elems=" + (n == 0 ? std::string{"-"} : elems) +
           " ok=" + (ok ? "1" : "0");
  }
  if (op == "chain" && t.size() == 4)
  {
    fcppt::log::format::optional_function const f{parse_fmt(t[1])};
    if (t[1] == t[2]) // the same object on both sides
      return "r=" + show_opt(fcppt::log::format::chain(f, f), t[3]);
    fcppt::log::format::optional_function const g{parse_fmt(t[2])};
    return "r=" + show_opt(fcppt::log::format::chain(f, g), t[3]);
  }
  if (op == "fn" && t.size() == 3)
    return "r=" + show_opt(parse_fmt(t[1]), t[2]);
  if (op == "ts" && t.size() == 2)
  {
    std::time_t const before = std::time(nullptr);
    std::string const got = fcppt::log::format::time_stamp()(t[1]);
    std::time_t const after = std::time(nullptr);
    for (std::time_t now = before; now <= after && now - before < 100; ++now)
    {
      std::ostringstream stamp;
      fcppt::time::output_tm(stamp, fcppt::time::localtime(now));
      std::string const pre = stamp.str() + ": ";
      if (got.compare(0, pre.size(), pre) == 0)
        return "ts=ok rest=" + esc(got.substr(pre.size()));
    }
    return "ts=bad";
  }
  if (op == "ls" && t.size() == 5)
  {
    if (t[3] != "0" && t[3] != "1")
      return "bad-op";
    std::ostringstream a, b;
    fcppt::log::level_stream stream{route_stream(fcppt::log::level_stream{a, parse_fmt(t[1])}, sm_route(11U))};
    if (t[3] == "1")
      stream.sink(b);
    stream.log(fcppt::log::out << t[4], parse_fmt(t[2]));
    std::string const g = &stream.get() == &a ? "A" : &stream.get() == &b ? "B" : "?";
    return "A=" + (a.str().empty() ? std::string{"-"} : esc(a.str())) + " B=" + (b.str().empty() ? std::string{"-"} : esc(b.str())) +
           " g=" + g + " f=" + show_opt(stream.formatter(), "x");
  }
  if (op == "dstream" && t.size() == 2)
  {
    auto const l = parse_lvl_nat(t[1]);
    if (!l)
      return "bad-op";
    return level_stream_name(fcppt::log::default_stream(to_level(*l)));
  }
  if (op == "dls" && t.size() == 3)
  {
    auto const l = parse_lvl_nat(t[1]);
    if (!l)
      return "bad-op";
    fcppt::log::level_stream_array streams{fcppt::log::default_level_streams()};
    fcppt::log::level_stream &stream = streams[to_level(*l)];
    return "s=" + level_stream_name(stream.get()) + " f=" + show_opt(stream.formatter(), t[2]);
  }
  if (op == "params" && t.size() == 4)
  {
    fcppt::log::parameters const p{route_params(fcppt::log::parameters{parse_name(t[1]), parse_fmt(t[2])}, sm_route(5U))};
    return "name=" + show_name(p.name().get()) + " f=" + show_opt(p.formatter(), t[3]);
  }
  if (op == "pnf" && t.size() == 3)
  {
    fcppt::log::parameters const p{route_params(fcppt::log::parameters_no_function(parse_name(t[1])), sm_route(6U))};
    return "name=" + show_name(p.name().get()) + " f=" + show_opt(p.formatter(), t[2]);
  }
  return std::nullopt;
}

// `-` → parameters_no_function, otherwise the two-argument constructor
fcppt::log::parameters make_params(std::string const &name, std::string const &fmt)
{
  if (fmt == "-")
    return route_params(fcppt::log::parameters_no_function(parse_name(name)), sm_route(7U));
  return route_params(fcppt::log::parameters{parse_name(name), parse_fmt(fmt)}, sm_route(8U));
}

std::string handle_core(std::vector<std::string> const &t)
{
  if (t.empty())
    return "bad-op";
  std::string const &op = t[0];
  if (op == "reset" && t.size() == 1)
  {
    fresh(fcppt::log::optional_level{fcppt::log::level::warning}, 'D');
    return "ok";
  }
  if (op == "ctx" && t.size() == 3)
  {
    auto const root = parse_level(t[1]);
    if (!root || !(t[2] == "D" || t[2] == "N" || t[2] == "M"))
      return "bad-op";
    fresh(*root, t[2][0]);
    return "ok";
  }
  if (!context) // the Lean driver starts with the `reset` state
    fresh(fcppt::log::optional_level{fcppt::log::level::warning}, 'D');
  if (op == "set" && t.size() == 3)
  {
    auto const loc = parse_loc(t[1]);
    auto const lvl = parse_level(t[2]);
    if (!loc || !lvl)
      return "bad-op";
    context->set(*loc, *lvl);
    return "ok";
  }
  if (op == "get" && t.size() == 2)
  {
    auto const loc = parse_loc(t[1]);
    if (!loc)
      return "bad-op";
    fcppt::log::context const &c = *context;
    return "lvl=" + show_level(c.get(*loc));
  }
  if (op == "objr" && t.size() == 3)
    return add_obj(std::make_unique<fcppt::log::object>(fcppt::make_ref(*context), make_params(t[1], t[2])));
  if (op == "objl" && t.size() == 4)
  {
    auto const loc = parse_loc(t[1]);
    if (!loc)
      return "bad-op";
    // always the two-argument parameters constructor here (objr / objc use parameters_no_function for `-`)
    return add_obj(std::make_unique<fcppt::log::object>(
        fcppt::make_ref(*context), *loc, route_params(fcppt::log::parameters{parse_name(t[2]), parse_fmt(t[3])}, sm_route(9U))));
  }
  if (op == "objc" && t.size() == 4)
  {
    fcppt::log::object const *const parent = get_obj(t[1]);
    if (parent == nullptr)
      return "bad-op";
    return add_obj(std::make_unique<fcppt::log::object>(*parent, make_params(t[2], t[3])));
  }
  if (op == "del" && t.size() == 2)
  {
    if (get_obj(t[1]) == nullptr)
      return "bad-op";
    objects[*parse_nat(t[1])].reset(); // the id stays taken
    return "ok";
  }
  if (op == "lvl" && t.size() == 2)
  {
    fcppt::log::object const *const o = get_obj(t[1]);
    return o == nullptr ? "bad-op" : obj_line(*o);
  }
  if (op == "log" && t.size() == 4)
    return do_log(log_kind::direct, t[1], t[2], t[3], "");
  if (op == "logm" && t.size() == 4)
    return do_log(log_kind::macro, t[1], t[2], t[3], "");
  if (op == "logp" && t.size() == 5)
    return do_log(log_kind::parts, t[1], t[2], t[3], t[4]);
  if (op == "loga" && t.size() == 5)
    return do_log(log_kind::assigned, t[1], t[2], t[3], t[4]);
  if (op == "fmt" && t.size() == 3)
  {
    fcppt::log::object const *const o = get_obj(t[1]);
    return o == nullptr ? "bad-op" : "fmt=" + show_opt(o->formatter(), t[2]);
  }
  if (op == "sink" && t.size() == 5)
  {
    fcppt::log::object const *const o = get_obj(t[1]);
    auto const l = parse_lvl_nat(t[2]);
    if (o == nullptr || !l)
      return "bad-op";
    clear_sinks();
    fcppt::log::level_stream const &stream = o->level_sink(to_level(*l));
    if (t[3] == "@") // the object's own formatter, the very same object, as additional formatter
      stream.log(fcppt::log::out << t[4], o->formatter());
    else
      stream.log(fcppt::log::out << t[4], parse_fmt(t[3]));
    bool const same = &stream == &o->level_streams()[to_level(*l)] && &stream == &context->level_streams().get()[to_level(*l)];
    return collect_sinks() + " same=" + (same ? "1" : "0");
  }
  if (op == "cstr" && t.size() == 4)
  {
    auto const l = parse_lvl_nat(t[1]);
    if (!l)
      return "bad-op";
    clear_sinks();
    fcppt::log::context const &c = *context;
    c.level_streams().get()[to_level(*l)].log(fcppt::log::out << t[3], parse_fmt(t[2]));
    return collect_sinks();
  }
  if (auto r = stateless(t))
    return *r;
  return "bad-op";
}

// ---- exhaustive enumeration of small histories ---------------------------------------------------------------
using op_tokens = std::vector<std::string>;

std::vector<op_tokens> parse_ops(std::string const &s)
{
  std::vector<op_tokens> r;
  if (s == "-")
    return r;
  for (std::string const &o : split(s, ';'))
    r.push_back(split(o, ','));
  return r;
}

std::uint64_t feed(std::uint64_t const h, std::string const &line) { return vh::fnv(vh::fnv(h, line), "\n"); }

// The enumerator runs millions of operations: the operations of the alphabet and the observed locations are parsed
// once.  (`case` lines and the prefix of an `enum` line go through handle_core; the Lean driver has one path only, so
// the two C++ paths are compared with each other through it.)
struct fast_op
{
  enum class kind
  {
    set,
    objr,
    objl,
    objc,
    other
  };
  kind k = kind::other;
  fcppt::log::location loc{};
  fcppt::log::optional_level lvl{};
  std::size_t id = 0;
  op_tokens toks{};
};

fast_op compile(op_tokens const &t)
{
  fast_op r;
  r.toks = t;
  if (t.size() == 3 && t[0] == "set")
  {
    auto const loc = parse_loc(t[1]);
    auto const lvl = parse_level(t[2]);
    if (loc && lvl)
    {
      r.k = fast_op::kind::set;
      r.loc = *loc;
      r.lvl = *lvl;
    }
  }
  else if (t.size() == 3 && t[0] == "objr")
    r.k = fast_op::kind::objr;
  else if (t.size() == 4 && t[0] == "objl")
  {
    if (auto const loc = parse_loc(t[1]))
    {
      r.k = fast_op::kind::objl;
      r.loc = *loc;
    }
  }
  else if (t.size() == 4 && t[0] == "objc")
  {
    if (auto const id = parse_nat(t[1]))
    {
      r.k = fast_op::kind::objc;
      r.id = *id;
    }
  }
  return r;
}

std::string run_fast(fast_op const &o)
{
  switch (o.k)
  {
  case fast_op::kind::set:
    context->set(o.loc, o.lvl);
    return "ok";
  case fast_op::kind::objr:
    return add_obj(std::make_unique<fcppt::log::object>(fcppt::make_ref(*context), make_params(o.toks[1], o.toks[2])));
  case fast_op::kind::objl:
    return add_obj(std::make_unique<fcppt::log::object>(
        fcppt::make_ref(*context), o.loc, route_params(fcppt::log::parameters{parse_name(o.toks[2]), parse_fmt(o.toks[3])}, sm_route(10U))));
  case fast_op::kind::objc:
    if (o.id >= objects.size() || !objects[o.id])
      return "bad-op";
    return add_obj(std::make_unique<fcppt::log::object>(*objects[o.id], make_params(o.toks[2], o.toks[3])));
  case fast_op::kind::other:
    break;
  }
  return handle_core(o.toks);
}

std::uint64_t observe(std::vector<fcppt::log::location> const &locs, std::size_t const step, std::uint64_t h)
{
  fcppt::log::context const &c = *context;
  for (fcppt::log::location const &l : locs)
    h = feed(h, "lvl=" + show_level(c.get(l)));
  std::string const msg{"m"};
  for (std::size_t i = 0; i < objects.size(); ++i)
  {
    if (!objects[i])
      continue;
    h = feed(h, obj_line(*objects[i]));
    unsigned const l = static_cast<unsigned>((i + step) % 6U);
    if ((i + step) % 2U == 0U)
    {
      objects[i]->log(to_level(l), fcppt::log::out << msg);
      h = feed(h, collect_sinks());
    }
    else
    {
      evaluations = 0;
      log_macro(*objects[i], l, msg);
      h = feed(h, collect_sinks() + " ev=" + std::to_string(evaluations));
    }
  }
  return h;
}

// the context cannot be copied: every history is replayed from a fresh context
struct enumerator
{
  bool each;
  fcppt::log::optional_level root;
  char cfg;
  std::vector<op_tokens> prefix;
  std::vector<op_tokens> alphabet;
  std::vector<fcppt::log::location> locs;
  std::vector<fast_op> fast{};
  std::uint64_t count = 0;
  std::uint64_t total = vh::fnv_init;
  std::vector<std::size_t> word{};

  static bool creates(op_tokens const &o) { return o[0] == "objr" || o[0] == "objl" || o[0] == "objc"; }

  // an objc needs its parent
  bool valid_next(std::size_t const nobjs, op_tokens const &o) const
  {
    if (o[0] != "objc")
      return true;
    auto const id = parse_nat(o.size() > 1 ? o[1] : std::string{});
    return id && *id < nobjs;
  }

  // returns false if an operation was rejected
  bool replay(std::uint64_t &h)
  {
    fresh(root, cfg);
    std::size_t step = 0;
    h = vh::fnv_init;
    auto const done = [&](std::string const &r) {
      if (r == "bad-op")
        return false;
      h = feed(h, r);
      ++step;
      if (each)
        h = observe(locs, step, h);
      return true;
    };
    for (op_tokens const &o : prefix)
      if (!done(handle_core(o)))
        return false;
    for (std::size_t const i : word)
      if (!done(run_fast(fast[i])))
        return false;
    if (!each)
      h = observe(locs, step, h);
    return true;
  }

  void rec(unsigned const k, std::size_t const nobjs)
  {
    if (k == 0)
    {
      std::uint64_t h = 0;
      if (!replay(h))
        return; // cannot happen for a prefix that was accepted and an alphabet filtered by valid_next
      ++count;
      total = (total ^ h) * 1099511628211ULL;
      return;
    }
    for (std::size_t i = 0; i < alphabet.size(); ++i)
    {
      if (!valid_next(nobjs, alphabet[i]))
        continue;
      word.push_back(i);
      rec(k - 1, nobjs + (creates(alphabet[i]) ? 1U : 0U));
      word.pop_back();
    }
  }
};

bool known_cfg(std::string const &c) { return c == "D" || c == "N" || c == "M"; }

std::string handle_inner(std::vector<std::string> const &t)
{
  if (!t.empty() && t[0] == "enum" && t.size() == 8)
  {
    auto const k = parse_nat(t[1]);
    auto const root = parse_level(t[3]);
    if (!k || *k > 6 || !root || !(t[2] == "e" || t[2] == "f") || !known_cfg(t[4]))
      return "bad-op";
    std::vector<fcppt::log::location> locs;
    for (std::string const &l : split(t[7], ','))
    {
      auto const loc = parse_loc(l);
      if (!loc)
        return "bad-op";
      locs.push_back(*loc);
    }
    enumerator e{t[2] == "e", *root, t[4][0], parse_ops(t[5]), parse_ops(t[6]), locs};
    for (auto const &o : e.alphabet)
    {
      if (o.empty() || o[0].empty())
        return "bad-op";
      e.fast.push_back(compile(o));
    }
    // the prefix must be accepted as it stands
    std::uint64_t h = 0;
    if (!e.replay(h))
      return "bad-op";
    std::size_t nobjs = 0;
    for (auto const &o : e.prefix)
      nobjs += enumerator::creates(o) ? 1U : 0U;
    e.rec(static_cast<unsigned>(*k), nobjs);
    fresh(fcppt::log::optional_level{fcppt::log::level::warning}, 'D'); // leaves the `reset` state behind
    return "n=" + std::to_string(e.count) + " h=" + vh::hex64(e.total);
  }
  if (!t.empty() && t[0] == "case" && t.size() == 5)
  {
    auto const root = parse_level(t[1]);
    if (!root || !known_cfg(t[2]))
      return "bad-op";
    // runs on a context of its own and leaves the `reset` state behind (as `enum` does)
    fresh(*root, t[2][0]);
    std::string r;
    for (op_tokens const &o : parse_ops(t[3]))
      if (handle_core(o) == "bad-op")
        r = "bad-op";
    if (r.empty())
      r = handle_core(split(t[4], ','));
    fresh(fcppt::log::optional_level{fcppt::log::level::warning}, 'D');
    return r;
  }
  return handle_core(t);
}

std::string handle(std::vector<std::string> const &t)
{
  try
  {
    sm_mismatch.clear();
    sm_seq = 0U;
    sm_op_salt = 0U;
    for (std::string const &tok : t)
      sm_op_salt = vh::sm::mix(sm_op_salt, tok);
    std::string const r{handle_inner(t)};
    return r + sm_mismatch;
  }
  catch (fcppt::exception const &)
  {
    return "exc:fcppt";
  }
  catch (std::bad_alloc const &)
  {
    return "exc:bad_alloc";
  }
  catch (std::exception const &)
  {
    return "exc:std";
  }
  catch (...)
  {
    return "exc:unknown";
  }
}
}

int main()
{
  vh::op_budget() = 120;
  int const r = vh::run(handle);
  // destroy in the right order before the static sinks go away (keeps LeakSanitizer exact)
  objects.clear();
  context.reset();
  return r;
}
