// C10 harness: bitfield instantiations with std::uint8_t storage words
#include "c10_inst.hpp"

#include <cstdint>

namespace c10
{
factory const *factory_w8(unsigned const n) { return factory_for<std::uint8_t>(n); }
}
