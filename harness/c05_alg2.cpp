// C05 correspondence harness, family unit `alg2`: the remaining algorithm/ and container/ helpers that take or return elements
// (see harness/c05_common.hpp and harness/c05.cpp)
#include "c05_common.hpp"

#include <fcppt/function_impl.hpp>
#include <fcppt/algorithm/contains.hpp>
#include <fcppt/algorithm/find_by_opt.hpp>
#include <fcppt/algorithm/find_if_opt.hpp>
#include <fcppt/algorithm/find_opt.hpp>
#include <fcppt/algorithm/generate_n.hpp>
#include <fcppt/algorithm/index_of.hpp>
#include <fcppt/algorithm/map_iteration.hpp>
#include <fcppt/algorithm/map_iteration_second.hpp>
#include <fcppt/algorithm/remove.hpp>
#include <fcppt/algorithm/remove_if.hpp>
#include <fcppt/algorithm/sequence_iteration.hpp>
#include <fcppt/algorithm/unique.hpp>
#include <fcppt/algorithm/unique_if.hpp>
#include <fcppt/algorithm/update_action.hpp>
#include <fcppt/container/at_optional.hpp>
#include <fcppt/container/find_opt_mapped.hpp>
#include <fcppt/container/index_map.hpp>
#include <fcppt/container/insert.hpp>
#include <fcppt/container/map_values_copy.hpp>
#include <fcppt/container/maybe_back.hpp>
#include <fcppt/container/maybe_front.hpp>
#include <fcppt/container/set_difference.hpp>
#include <fcppt/container/set_intersection.hpp>
#include <fcppt/container/set_union.hpp>

namespace c05
{
namespace
{
template <typename T>
std::list<T> mk_list(arg_t const &_a)
{
  std::list<T> l;
  for (int const i : _a.ids)
    l.emplace_back(i);
  return l;
}
template <typename T>
void mark(std::list<T> &_l)
{
  for (auto &e : _l)
    c05::mark(e);
}

int par_le(line_t const &L, std::size_t const _hi)
{
  need(L.par.size() == 1 && L.par[0] >= 0 && static_cast<std::size_t>(L.par[0]) <= _hi);
  return L.par[0];
}

// lvalue / const lvalue container (the helpers take `Range &` / `Range const &`)
template <typename C, typename F>
auto with_lc(char const _cat, C &_c, F const &_f) -> decltype(_f(_c))
{
  switch (_cat)
  {
  case 'l':
    return _f(_c);
  case 'c':
    return _f(std::as_const(_c));
  default:
    throw bad_op{};
  }
}

template <typename T>
std::string op_find(std::string const &_op, line_t const &L)
{
  if (_op == "algfind" || _op == "algindexof" || _op == "algcontains")
  {
    // par[0] = k: the value looked for is element k of the range itself (aliasing), k = size: the separate object of argument 1
    need(L.args.size() == 2 && L.n(1) == 1 && L.cat(1) == 'c');
    auto v{mk_vec<T>(L.args[0])};
    c05::mark(v);
    T val{L.args[1].ids[0]};
    c05::mark(val);
    std::size_t const k{static_cast<std::size_t>(par_le(L, L.n(0)))};
    T const &ref{k < v.size() ? v[k] : val};
    g_log.clear();
    std::string tag;
    if (_op == "algfind")
    {
      tag = with_lc(
          L.cat(0),
          v,
          [&ref](auto &c)
          {
            auto const r{fcppt::algorithm::find_opt(c, ref)};
            return r.has_value() ? "J" + std::to_string(r.get_unsafe()->id) : std::string{"N"};
          });
    }
    else if (_op == "algindexof")
    {
      tag = with_lc(
          L.cat(0),
          v,
          [&ref](auto &c)
          {
            auto const r{fcppt::algorithm::index_of(c, ref)};
            return r.has_value() ? "J" + std::to_string(r.get_unsafe()) : std::string{"N"};
          });
    }
    else
      tag = with_lc(L.cat(0), v, [&ref](auto &c) { return std::string{fcppt::algorithm::contains(c, ref) ? "1" : "0"}; });
    event_log const log{g_log};
    slots_t sv;
    sv.add(val);
    return finish(tag, "-", {slots(v), sv.str()}, log);
  }
  if (_op == "algfindif" || _op == "algfindby")
  {
    need(L.args.size() == 1);
    auto v{mk_vec<T>(L.args[0])};
    c05::mark(v);
    int const k{par_le(L, L.n(0))};
    int idx{0};
    g_log.clear();
    if (_op == "algfindif")
    {
      std::string const tag{with_lc(
          L.cat(0),
          v,
          [&](auto &c)
          {
            auto const r{fcppt::algorithm::find_if_opt(
                c,
                [&idx, k](auto &&e)
                {
                  ask(FWD(e));
                  return idx++ == k;
                })};
            return r.has_value() ? "J" + std::to_string(r.get_unsafe()->id) : std::string{"N"};
          })};
      event_log const log{g_log};
      return finish(tag, "-", {slots(v)}, log);
    }
    opt<T> const r{with_lc(
        L.cat(0),
        v,
        [&](auto &c)
        {
          return fcppt::algorithm::find_by_opt(
              c,
              [&idx, k](auto &&e)
              {
                auto &&x{take(FWD(e))};
                x.read();
                return idx++ == k ? opt<T>{x.derive(1)} : opt<T>{};
              });
        })};
    event_log const log{g_log};
    return finish(opt_tag(r), opt_slots(r), {slots(v)}, log);
  }
  throw bad_op{};
}

template <typename T>
std::string op_iter(std::string const &_op, line_t const &L)
{
  need(L.args.size() == 1 && L.cat(0) == 'i' && L.par.size() == L.n(0));
  for (int const m : L.par)
    need(m == 0 || m == 1);
  std::size_t idx{0};
  auto const answer{[&idx, &L](auto &&e)
                    {
                      ask(FWD(e));
                      return L.par.at(idx++) == 1 ? fcppt::algorithm::update_action::keep : fcppt::algorithm::update_action::remove;
                    }};
  if (_op == "algseqitervec")
  {
    auto v{mk_vec<T>(L.args[0])};
    c05::mark(v);
    // erase shifts the later elements: the answer is looked up by the identity of the element
    auto const by_id{[&L](auto &&e)
                     {
                       ask(FWD(e));
                       for (std::size_t i = 0; i < L.n(0); ++i)
                         if (L.args[0].ids[i] == e.id)
                           return L.par.at(i) == 1 ? fcppt::algorithm::update_action::keep : fcppt::algorithm::update_action::remove;
                       throw bad_op{};
                     }};
    g_log.clear();
    fcppt::algorithm::sequence_iteration(v, by_id);
    event_log const log{g_log};
    return finish("-", "-", {slots(v)}, log);
  }
  if (_op == "algseqiter")
  {
    auto l{mk_list<T>(L.args[0])};
    mark(l);
    g_log.clear();
    fcppt::algorithm::sequence_iteration(l, answer);
    event_log const log{g_log};
    return finish("-", "-", {slots(l)}, log);
  }
  auto m{mk_map<T>(L.args[0])};
  c05::mark(m);
  g_log.clear();
  if (_op == "algmapiter")
    fcppt::algorithm::map_iteration(m, [&answer](auto &&kv) { return answer(FWD(kv).second); });
  else
    fcppt::algorithm::map_iteration_second(m, [&answer](auto &&e) { return answer(FWD(e)); });
  event_log const log{g_log};
  return finish("-", "-", {map_slots(m)}, log);
}

template <typename T>
std::string op_cont(std::string const &_op, line_t const &L)
{
  if (_op == "alggenerate")
  {
    need(L.args.empty() && L.par.size() == 1 && L.par[0] >= 0 && L.par[0] <= 64);
    int next{1000};
    g_log.clear();
    std::vector<T> const r{fcppt::algorithm::generate_n<std::vector<T>>(static_cast<std::size_t>(L.par[0]), [&next] { return T{next++}; })};
    event_log const log{g_log};
    return finish("-", slots(r), {}, log);
  }
  if (_op == "continsert")
  {
    // a map keyed 0 .. n-1; par[0] = the key of the new value (n: a key that is not there yet)
    need(L.args.size() == 2 && L.cat(0) == 'i' && L.n(1) == 1);
    auto m{mk_map<T>(L.args[0])};
    c05::mark(m);
    std::pair<int const, T> p{par_le(L, L.n(0)), T{L.args[1].ids[0]}};
    c05::mark(p.second);
    g_log.clear();
    bool const r{with_cat<T::copyable>(L.cat(1), p, [&m](auto &&x) { return fcppt::container::insert(m, FWD(x)); })};
    event_log const log{g_log};
    slots_t sp;
    sp.add(p.second);
    return finish(r ? "I1" : "I0", "-", {map_slots(m), sp.str()}, log);
  }
  if (_op == "setunion" || _op == "setdiff" || _op == "setinter")
  {
    // par[0] = 1: both arguments are the same set (then argument 1 is empty and unused)
    need(L.args.size() == 2 && L.par.size() == 1 && (L.par[0] == 0 || (L.par[0] == 1 && L.n(1) == 0)));
    if constexpr (T::copyable)
    {
      std::set<T> a, b;
      for (int const i : L.args[0].ids)
        a.emplace(i);
      for (int const i : L.args[1].ids)
        b.emplace(i);
      std::set<T> &second{L.par[0] == 1 ? a : b};
      g_log.clear();
      std::set<T> const r{with_lc(
          L.cat(0),
          a,
          [&](auto &x)
          {
            return with_lc(
                L.cat(1),
                second,
                [&](auto &y)
                {
                  if (_op == "setunion")
                    return fcppt::container::set_union(x, y);
                  if (_op == "setdiff")
                    return fcppt::container::set_difference(x, y);
                  return fcppt::container::set_intersection(x, y);
                });
          })};
      event_log const log{g_log};
      return finish("-", slots(r), {slots(a), slots(b)}, log);
    }
    else
      throw bad_op{};
  }
  if (_op == "mapvalcopy")
  {
    need(L.args.size() == 1 && L.par.empty());
    if constexpr (T::copyable)
    {
      auto m{mk_map<T>(L.args[0])};
      c05::mark(m);
      g_log.clear();
      std::vector<T> const r{with_lc(L.cat(0), m, [](auto &x) { return fcppt::container::map_values_copy<std::vector<T>>(x); })};
      event_log const log{g_log};
      return finish("-", slots(r), {map_slots(m)}, log);
    }
    else
      throw bad_op{};
  }
  if (_op == "atopt" || _op == "maybeback" || _op == "maybefront")
  {
    need(L.args.size() == 1);
    auto v{mk_vec<T>(L.args[0])};
    c05::mark(v);
    std::size_t const k{_op == "atopt" ? static_cast<std::size_t>(par_le(L, L.n(0))) : (need(L.par.empty()), 0U)};
    g_log.clear();
    std::string const tag{with_lc(
        L.cat(0),
        v,
        [&](auto &c)
        {
          auto const r{
              _op == "atopt" ? fcppt::container::at_optional(c, k)
                             : (_op == "maybeback" ? fcppt::container::maybe_back(c) : fcppt::container::maybe_front(c))};
          return r.has_value() ? "R" + std::to_string(r.get_unsafe().get().id) : std::string{"N"};
        })};
    event_log const log{g_log};
    return finish(tag, "-", {slots(v)}, log);
  }
  if (_op == "findoptmapped")
  {
    need(L.args.size() == 1);
    auto m{mk_map<T>(L.args[0])};
    c05::mark(m);
    int const k{par_le(L, L.n(0))};
    g_log.clear();
    std::string const tag{with_lc(
        L.cat(0),
        m,
        [k](auto &c)
        {
          auto const r{fcppt::container::find_opt_mapped(c, k)};
          return r.has_value() ? "R" + std::to_string(r.get_unsafe().get().id) : std::string{"N"};
        })};
    event_log const log{g_log};
    return finish(tag, "-", {map_slots(m)}, log);
  }
  if (_op == "indexmapget")
  {
    // the elements of an index_map are its own (filled through get): they are not marked as the caller's objects, so the
    // relocation by `reserve` is no event; copies and reads of moved-from objects still are
    need(L.args.size() == 1 && L.cat(0) == 'i' && L.par.size() == 1 && L.par[0] >= 0 && L.par[0] <= 40);
    fcppt::container::index_map<T> im;
    using fn = typename fcppt::container::index_map<T>::insert_function;
    for (std::size_t i = 0; i < L.n(0); ++i)
    {
      int const id{L.args[0].ids[i]};
      (void)im.get(i, fn{[id] { return T{id}; }});
    }
    int next{1000};
    g_log.clear();
    T &r{im.get(static_cast<std::size_t>(L.par[0]), fn{[&next] { return T{next++}; }})};
    event_log const log{g_log};
    return finish("R" + std::to_string(r.id), "-", {slots(im.impl())}, log);
  }
  throw bad_op{};
}

// ---------------------------------------------------------------- remove / remove_if / unique / unique_if (in-place compaction)

template <typename T>
std::string op_compact(std::string const &_op, line_t const &L)
{
  need(L.args.size() >= 1 && L.cat(0) == 'i');
  auto v{mk_vec<T>(L.args[0])};
  c05::mark(v);
  // the answer for an element is looked up by its identity (the algorithms move elements around while they ask)
  auto const goes{[&L](T const &e)
                  {
                    for (std::size_t i = 0; i < L.n(0); ++i)
                      if (L.args[0].ids[i] == e.id)
                        return L.par.at(i) == 0;
                    throw bad_op{};
                  }};
  if (_op == "algremoveif" || _op == "alguniqueif")
  {
    need(L.args.size() == 1 && L.par.size() == L.n(0));
    for (int const m : L.par)
      need(m == 0 || m == 1);
    g_log.clear();
    std::string tag{"-"};
    if (_op == "algremoveif")
      tag = fcppt::algorithm::remove_if(
                v,
                [&goes](auto &&e)
                {
                  ask(FWD(e));
                  return goes(e);
                })
                ? "1"
                : "0";
    else
    {
      need(L.par.empty() || L.par[0] == 1);
      fcppt::algorithm::unique_if(
          v,
          [&goes](auto &&a, auto &&b)
          {
            cmp_note<decltype(a)>();
            cmp_note<decltype(b)>();
            a.read();
            b.read();
            return goes(b);
          });
    }
    event_log const log{g_log};
    return finish(tag, "-", {slots(v)}, log);
  }
  if (_op == "algunique")
  {
    need(L.args.size() == 1 && L.par.empty());
    g_log.clear();
    fcppt::algorithm::unique(v);
    event_log const log{g_log};
    return finish("-", "-", {slots(v)}, log);
  }
  if (_op == "algremove")
  {
    need(L.args.size() == 2 && L.cat(1) == 'c' && L.n(1) == 1 && L.par.empty());
    if constexpr (T::copyable)
    {
      T const val{L.args[1].ids[0]};
      g_log.clear();
      bool const r{fcppt::algorithm::remove(v, val)};
      event_log log{g_log};
      // remove captures the value by copy; libstdc++ passes the predicate by value several times (an unspecified number of copies of
      // the closure, each destroyed again): they count as the one captured copy
      {
        bool seen{false};
        std::vector<int> lost;
        for (int const x : log.lost)
        {
          if (x == val.id)
          {
            if (seen)
              continue;
            seen = true;
          }
          lost.push_back(x);
        }
        log.lost = lost;
      }
      slots_t sv;
      sv.add(val);
      return finish(r ? "1" : "0", "-", {slots(v), sv.str()}, log);
    }
    else
      throw bad_op{};
  }
  throw bad_op{};
}

template <typename T>
bool dispatch(std::string const &_op, line_t const &L, std::string &_out)
{
  if (_op == "algfind" || _op == "algindexof" || _op == "algcontains" || _op == "algfindif" || _op == "algfindby")
    return (_out = op_find<T>(_op, L), true);
  if (_op == "algmapiter" || _op == "algmapiter2" || _op == "algseqiter" || _op == "algseqitervec")
    return (_out = op_iter<T>(_op, L), true);
  if (_op == "alggenerate" || _op == "continsert" || _op == "setunion" || _op == "setdiff" || _op == "setinter" || _op == "mapvalcopy" ||
      _op == "atopt" || _op == "maybeback" || _op == "maybefront" || _op == "findoptmapped" || _op == "indexmapget")
    return (_out = op_cont<T>(_op, L), true);
  if (_op == "algremoveif" || _op == "alguniqueif" || _op == "algunique" || _op == "algremove")
    return (_out = op_compact<T>(_op, L), true);
  return false;
}
}

C05_FAMILY(family_alg2) { return C05_RUN(dispatch); }
}
