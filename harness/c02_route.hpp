// C02 harness: special-member routing of the fcppt::parse classes (common/route.hpp, notes/sweep.md).
//
//  * every parser object the harness builds - the type-erased nodes of c02.cpp before they go into make_base, the whole
//    statically typed parser of every typed shape - travels through a special member of its class before it is used;
//    the assignment target / swap partner is a parser of the same TYPE built from the type alone out of different
//    characters / strings / sets / children (alt<P>); move-only parsers (base_unique_ptr inside) take the move routes
//  * result<Ch, T> = either<error<Ch>, T> and error<Ch> are routed per input and compared (text AND fatal flag)
#ifndef VERIF_HARNESS_C02_ROUTE_HPP
#define VERIF_HARNESS_C02_ROUTE_HPP

#include "common/route.hpp"

#include <fcppt/make_cref.hpp>
#include <fcppt/reference_impl.hpp>
#include <fcppt/unit.hpp>
#include <fcppt/either/object_impl.hpp>
#include <fcppt/optional/object_impl.hpp>
#include <fcppt/parse/alternative_impl.hpp>
#include <fcppt/parse/base_impl.hpp>
#include <fcppt/parse/base_unique_ptr.hpp>
#include <fcppt/parse/basic_char.hpp>
#include <fcppt/parse/basic_char_set.hpp>
#include <fcppt/parse/basic_literal.hpp>
#include <fcppt/parse/basic_string.hpp>
#include <fcppt/parse/complement_impl.hpp>
#include <fcppt/parse/convert.hpp>
#include <fcppt/parse/convert_const.hpp>
#include <fcppt/parse/convert_if.hpp>
#include <fcppt/parse/epsilon.hpp>
#include <fcppt/parse/error.hpp>
#include <fcppt/parse/error_equal.hpp>
#include <fcppt/parse/fail.hpp>
#include <fcppt/parse/fatal_impl.hpp>
#include <fcppt/parse/fatal_tag.hpp>
#include <fcppt/parse/float.hpp>
#include <fcppt/parse/ignore.hpp>
#include <fcppt/parse/int.hpp>
#include <fcppt/parse/lexeme.hpp>
#include <fcppt/parse/list.hpp>
#include <fcppt/parse/make_base.hpp>
#include <fcppt/parse/named.hpp>
#include <fcppt/parse/not_impl.hpp>
#include <fcppt/parse/optional_impl.hpp>
#include <fcppt/parse/recursive.hpp>
#include <fcppt/parse/repetition_impl.hpp>
#include <fcppt/parse/repetition_plus_impl.hpp>
#include <fcppt/parse/result.hpp>
#include <fcppt/parse/separator.hpp>
#include <fcppt/parse/sequence_impl.hpp>
#include <fcppt/parse/uint.hpp>

#include <cstdlib>
#include <string>
#include <type_traits>
#include <utility>
#include <vector>

namespace c02route
{
namespace fp = fcppt::parse;

// ---------------------------------------------------------------- a different parser of the same type
template <typename P>
struct alt
{
  static constexpr bool ok = false;
};

template <typename P>
constexpr bool alt_ok = alt<P>::ok;

#define C02_ALT_EMPTY(...) \
  struct alt<__VA_ARGS__> \
  { \
    static constexpr bool ok = true; \
    static __VA_ARGS__ make() { return __VA_ARGS__{}; } \
  }

template <typename Ch>
C02_ALT_EMPTY(fp::basic_char<Ch>);
template <>
C02_ALT_EMPTY(fp::epsilon);
template <typename R>
C02_ALT_EMPTY(fp::fail<R>);
template <typename T>
C02_ALT_EMPTY(fp::float_<T>);
template <typename T>
C02_ALT_EMPTY(fp::int_<T>);
template <typename T>
C02_ALT_EMPTY(fp::uint<T>);
#undef C02_ALT_EMPTY

template <typename Ch>
struct alt<fp::basic_literal<Ch>>
{
  static constexpr bool ok = true;
  static fp::basic_literal<Ch> make() { return fp::basic_literal<Ch>{static_cast<Ch>(1)}; }
};

template <typename Ch>
struct alt<fp::basic_string<Ch>>
{
  static constexpr bool ok = true;
  static fp::basic_string<Ch> make()
  {
    return fp::basic_string<Ch>{std::basic_string<Ch>{static_cast<Ch>(1), static_cast<Ch>(2)}};
  }
};

template <typename Ch>
struct alt<fp::basic_char_set<Ch>>
{
  static constexpr bool ok = true;
  static fp::basic_char_set<Ch> make() { return fp::basic_char_set<Ch>{static_cast<Ch>(1), static_cast<Ch>(2)}; }
};

#define C02_ALT_UNARY(name) \
  template <typename P> \
  struct alt<fp::name<P>> \
  { \
    static constexpr bool ok = alt_ok<P>; \
    static fp::name<P> make() { return fp::name<P>{alt<P>::make()}; } \
  }
C02_ALT_UNARY(complement);
C02_ALT_UNARY(fatal);
C02_ALT_UNARY(ignore);
C02_ALT_UNARY(lexeme);
C02_ALT_UNARY(not_);
C02_ALT_UNARY(optional);
C02_ALT_UNARY(recursive);
C02_ALT_UNARY(repetition);
C02_ALT_UNARY(repetition_plus);
#undef C02_ALT_UNARY

#define C02_ALT_BINARY(name) \
  template <typename A, typename B> \
  struct alt<fp::name<A, B>> \
  { \
    static constexpr bool ok = alt_ok<A> && alt_ok<B>; \
    static fp::name<A, B> make() { return fp::name<A, B>{alt<A>::make(), alt<B>::make()}; } \
  }
C02_ALT_BINARY(alternative);
C02_ALT_BINARY(sequence);
C02_ALT_BINARY(separator);
#undef C02_ALT_BINARY

template <typename S, typename I, typename P, typename E>
struct alt<fp::list<S, I, P, E>>
{
  static constexpr bool ok = alt_ok<S> && alt_ok<I> && alt_ok<P> && alt_ok<E>;
  static fp::list<S, I, P, E> make()
  {
    return fp::list<S, I, P, E>{alt<S>::make(), alt<I>::make(), alt<P>::make(), alt<E>::make()};
  }
};

template <typename Ch, typename P>
struct alt<fp::named<Ch, P>>
{
  static constexpr bool ok = alt_ok<P>;
  static fp::named<Ch, P> make()
  {
    return fp::named<Ch, P>{alt<P>::make(), std::basic_string<Ch>{static_cast<Ch>('z'), static_cast<Ch>('q')}};
  }
};

// the conversion function of the other object is never called: the object is only ever the former value of an
// assignment target or the partner of a swap
template <typename P, typename R>
struct alt<fp::convert<P, R>>
{
  static constexpr bool ok = alt_ok<P>;
  static fp::convert<P, R> make()
  {
    using type = fp::convert<P, R>;
    return type{alt<P>::make(), typename type::function_type{[](fp::result_of<P> &&) -> R { std::abort(); }}};
  }
};

template <typename Ch, typename P, typename R>
struct alt<fp::convert_if<Ch, P, R>>
{
  static constexpr bool ok = alt_ok<P>;
  static fp::convert_if<Ch, P, R> make()
  {
    using type = fp::convert_if<Ch, P, R>;
    return type{
        alt<P>::make(),
        typename type::function_type{[](fp::result_of<P> &&) -> fp::result<Ch, R> { std::abort(); }}};
  }
};

// a value of the constant's type that differs from the constants the harnesses use
template <typename R>
struct alt_const
{
  static constexpr bool ok = false;
};
template <>
struct alt_const<fcppt::unit>
{
  static constexpr bool ok = true;
  static fcppt::unit make() { return fcppt::unit{}; }
};
template <typename T>
requires std::is_arithmetic_v<T>
struct alt_const<T>
{
  static constexpr bool ok = true;
  static T make() { return static_cast<T>(113); }
};
template <typename Ch>
struct alt_const<std::basic_string<Ch>>
{
  static constexpr bool ok = true;
  static std::basic_string<Ch> make() { return std::basic_string<Ch>{static_cast<Ch>('z'), static_cast<Ch>('q')}; }
};
template <typename T>
requires alt_const<T>::ok
struct alt_const<std::vector<T>>
{
  static constexpr bool ok = true;
  static std::vector<T> make() { return std::vector<T>{alt_const<T>::make()}; }
};

template <typename P, typename R>
struct alt<fp::convert_const<P, R>>
{
  static constexpr bool ok = alt_ok<P> && alt_const<R>::ok;
  static fp::convert_const<P, R> make() { return fp::convert_const<P, R>{alt<P>::make(), alt_const<R>::make()}; }
};

// children held by reference: the other object refers to one static parser of the referenced type
template <typename R, typename Ch, typename Sk>
struct alt<fcppt::reference<fp::base<R, Ch, Sk> const>>
{
  static constexpr bool ok = true;
  static fcppt::reference<fp::base<R, Ch, Sk> const> make()
  {
    static fp::base_unique_ptr<R, Ch, Sk> const node{fp::make_base<Ch, Sk>(fp::fail<R>{})};
    return fcppt::make_cref(*node);
  }
};

template <typename P>
requires(alt_ok<P> && !std::is_abstract_v<P>)
struct alt<fcppt::reference<P const>>
{
  static constexpr bool ok = true;
  static fcppt::reference<P const> make()
  {
    static P const node{alt<P>::make()};
    return fcppt::make_cref(node);
  }
};

template <typename R, typename Ch, typename Sk>
struct alt<fp::base_unique_ptr<R, Ch, Sk>>
{
  static constexpr bool ok = true;
  static fp::base_unique_ptr<R, Ch, Sk> make() { return fp::make_base<Ch, Sk>(fp::fail<R>{}); }
};

template <typename P>
constexpr bool copy_routable = std::is_copy_constructible_v<P> && std::is_copy_assignable_v<P> &&
                               std::is_move_constructible_v<P> && std::is_move_assignable_v<P>;

template <typename P>
constexpr bool move_routable = std::is_move_constructible_v<P> && std::is_move_assignable_v<P>;

// a parser through the special member selected by `_r`: every route for copyable classes, the move routes for
// move-only ones.  Where no different parser of the same type can be built from the type alone, the assignment target
// is a moved-from copy (copyable classes) or the parser does not travel (move-only ones).
template <typename P>
P routed_parser(P &&_p, unsigned const _r)
{
  static_assert(!std::is_reference_v<P>);
  if constexpr (copy_routable<P>)
  {
    if constexpr (alt_ok<P>)
    {
      return vh::sm::route(_r, _p, [] { return alt<P>::make(); });
    }
    else
    {
      return vh::sm::route(
          _r,
          _p,
          [&_p]
          {
            P other(_p);
            P gut(std::move(other));
            (void)gut;
            return other;
          });
    }
  }
  else if constexpr (move_routable<P> && alt_ok<P>)
  {
    return vh::sm::route_move(_r, std::move(_p), [] { return alt<P>::make(); });
  }
  else
  {
    return std::move(_p);
  }
}

// ---------------------------------------------------------------- errors and results
template <typename Ch>
std::string show_error(fp::error<Ch> const &_e)
{
  std::string r{_e.is_fatal() ? "F:" : "N:"};
  for (Ch const c : _e.get())
  {
    r += std::to_string(static_cast<long long>(c)) + ",";
  }
  return r;
}

template <typename Ch>
fp::error<Ch> other_error(fp::error<Ch> const &_e)
{
  std::basic_string<Ch> text{_e.get()};
  text.push_back(static_cast<Ch>('q'));
  return _e.is_fatal() ? fp::error<Ch>{std::move(text)} : fp::error<Ch>{std::move(text), fp::fatal_tag{}};
}

// error<Ch>: the text AND the fatal flag must survive (error_equal.hpp: operator== asked too)
template <typename Ch>
fp::error<Ch> routed_error(std::string &_mm, unsigned const _r, fp::error<Ch> const &_e)
{
  return vh::sm::checked_eq(
      _mm, "parse::error", _r, _e, [&_e] { return other_error(_e); }, [](fp::error<Ch> const &_x) { return show_error(_x); });
}

// result<Ch, T> = either<error<Ch>, T>: the former value of the target is (even) the same alternative - a failure with
// another text and the opposite fatal flag, a success is paired with `_other_success` - or (odd) the other alternative
// where one can be made
template <typename Ch, typename T, typename OtherSuccess, typename ShowSuccess>
fp::result<Ch, T> routed_result(
    std::string &_mm,
    unsigned const _r,
    fp::result<Ch, T> const &_res,
    OtherSuccess const &_other_success,
    ShowSuccess const &_show_success)
{
  return vh::sm::checked(
      _mm,
      "parse::result",
      _r,
      _res,
      [&_res, &_other_success, _r]
      {
        using res_t = fp::result<Ch, T>;
        if (_res.has_failure())
        {
          return res_t{other_error(_res.get_failure_unsafe())};
        }
        if ((_r / vh::sm::copy_routes) % 2U == 0U)
        {
          return res_t{fp::error<Ch>{std::basic_string<Ch>{static_cast<Ch>('z')}, fp::fatal_tag{}}};
        }
        return res_t{_other_success(_res.get_success_unsafe())};
      },
      [&_show_success](fp::result<Ch, T> const &_x)
      { return _x.has_success() ? "S" + _show_success(_x.get_success_unsafe()) : "E" + show_error(_x.get_failure_unsafe()); });
}

template <typename Ch>
unsigned route_of(std::basic_string<Ch> const &_input, unsigned const _salt)
{
  std::uint32_t h{_salt * 2654435761U + 11U};
  for (Ch const c : _input)
  {
    h = (h ^ static_cast<std::uint32_t>(c)) * 16777619U;
  }
  return static_cast<unsigned>(h ^ (h >> 13U));
}
}

#endif
