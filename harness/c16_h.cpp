// C16 correspondence harness, part h: user functions that observe the container they are called from, and user functions
// that throw at their T-th call (T = 0: never).  A callback first records what it sees, then counts the call (and throws).
#include "c16_common.hpp"

namespace
{
struct cb_exc {};

struct thrower
{
  ulong T;
  ulong calls{0};
  void tick()
  {
    ++calls;
    if (T != 0 && calls == T) throw cb_exc{};
  }
};

// log entries "element:observation"
std::string show_obs(std::vector<std::pair<int, ulong>> const &log)
{
  std::string r;
  for (auto const &e : log) r += (r.empty() ? "" : ",") + std::to_string(e.first) + ":" + std::to_string(e.second);
  return r.empty() ? "-" : r;
}

// element type that counts default constructions and live objects
struct ce
{
  static inline int defaults{0};
  static inline int live{0};
  int v;
  ce() : v(-1) { ++defaults; ++live; }
  ce(int const x) : v(x) { ++live; } // NOLINT
  ce(ce const &o) : v(o.v) { ++live; }
  ce(ce &&o) noexcept : v(o.v) { ++live; }
  ce &operator=(ce const &) = default;
  ce &operator=(ce &&) noexcept = default;
  ~ce() { --live; }
};
inline int val(ce const &c) { return c.v; }
}

c16::result c16::eval_h(std::string const &fn, char const k, params const &ps, std::vector<int> const &v)
{
  C16_PREAMBLE
  if ((fn == "loopbrkx" || fn == "foldx" || fn == "foldbrkx") && np == 2)
  {
    ulong const B = ps[0], T = ps[1];
    if (!(ro || k == 'a' || k == 't' || k == 'p') || B >= 8 || T > 8) return bad;
    seq log;
    thrower th{T};
    auto const run = [&](auto &&range) -> std::string {
      try
      {
        if (fn == "loopbrkx")
        {
          alg::loop_break(FWD(range), [&](auto const &e) {
            log.push_back(val(e));
            th.tick();
            return bit(B, val(e)) ? fcppt::loop::break_ : fcppt::loop::continue_;
          });
          return ds(log);
        }
        if (fn == "foldx")
        {
          ulong const r{alg::fold(FWD(range), 0UL, [&](auto const &e, ulong const st) {
            log.push_back(val(e));
            th.tick();
            return st * 4 + static_cast<ulong>(val(e)) + 1;
          })};
          return std::to_string(r) + "|" + ds(log);
        }
        ulong const r{alg::fold_break(FWD(range), 0UL, [&](auto const &e, ulong const st) {
          log.push_back(val(e));
          th.tick();
          return std::make_pair(bit(B, val(e)) ? fcppt::loop::break_ : fcppt::loop::continue_, st * 4 + static_cast<ulong>(val(e)) + 1);
        })};
        return std::to_string(r) + "|" + ds(log);
      }
      catch (cb_exc const &)
      {
        return "exc|" + ds(log);
      }
    };
    if (k == 'a') return with_size<6>(v.size(), [&](auto n) { return run(mk_array<SZ(n)>(v, 0)); });
    if (k == 't') return with_size<3>(v.size(), [&](auto n) { return run(mk_tuple<SZ(n)>(v, 0)); });
    if (k == 'p') return with_mpl(v, [&](auto list) { return run(list); });
    return with_ro(k, v, [&](auto const &c) { return run(c); });
  }
  if (fn == "mapx" && np == 2)
  {
    ulong const t = ps[0], T = ps[1];
    if (!ro || t > 3 || T > 8) return bad;
    return with_ro(k, v, [&](auto const &c) {
      return with_target(t, [&](auto target) {
        seq log;
        thrower th{T};
        try
        {
          auto const r{alg::map<decltype(target)>(c, [&](auto const &e) { log.push_back(val(e)); th.tick(); return (val(e) + 1) % 3; })};
          return ds(r) + "|" + ds(log);
        }
        catch (cb_exc const &)
        {
          return "exc|" + ds(log);
        }
      });
    });
  }
  if ((fn == "findbyoptx" || fn == "findifoptx") && np == 2)
  {
    ulong const G = ps[0], T = ps[1];
    if (!ro || G >= (fn == "findbyoptx" ? 64U : 8U) || T > 8) return bad;
    return with_ro(k, v, [&](auto const &c) -> std::string {
      seq log;
      thrower th{T};
      try
      {
        if (fn == "findbyoptx")
        {
          fcppt::optional::object<int> const r{alg::find_by_opt(c, [&](auto const &e) { log.push_back(val(e)); th.tick(); return tbl_g(G, val(e)); })};
          return (r.has_value() ? std::to_string(r.get_unsafe()) : std::string{"none"}) + "|" + ds(log);
        }
        std::string const r{opt_idx(c, alg::find_if_opt(c, [&](auto const &e) { log.push_back(val(e)); th.tick(); return bit(G, val(e)); }))};
        return r + "|" + ds(log);
      }
      catch (cb_exc const &)
      {
        return "exc|" + ds(log);
      }
    });
  }
  if (fn == "seqiterx" && np == 2)
  {
    ulong const R = ps[0], T = ps[1];
    if (!sq || R >= 8 || T > 8) return bad;
    return with_seq(k, v, [&](auto &c) {
      // the action looks at the sequence it is called from: its size, and whether the element it was handed is still the
      // element in front of which `seen` elements have been kept (position check through the contents)
      std::vector<std::pair<int, ulong>> log;
      thrower th{T};
      std::string pre;
      try
      {
        alg::sequence_iteration(c, [&](int const &e) {
          // is `e` an element of the container (address inside it)?
          bool inside = false;
          for (auto const &x : c) inside = inside || &x == &e;
          log.emplace_back(e, c.size() * 2 + (inside ? 1U : 0U));
          th.tick();
          return bit(R, e) ? alg::update_action::remove : alg::update_action::keep;
        });
      }
      catch (cb_exc const &)
      {
        pre = "exc|";
      }
      return pre + ds(c) + "|" + show_obs(log);
    });
  }
  if (fn == "removeifx" && np == 2)
  {
    ulong const P = ps[0], T = ps[1];
    if (!sq || P >= 8 || T > 8) return bad;
    return with_seq(k, v, [&](auto &c) {
      thrower th{T};
      ulong seen_size = 0;
      try
      {
        bool const r{alg::remove_if(c, [&](int const e) { seen_size = c.size(); th.tick(); return bit(P, e); })};
        return std::string{b01(r)} + "|" + ds(c) + "|" + std::to_string(th.calls) + "|" + std::to_string(seen_size);
      }
      catch (cb_exc const &)
      {
        // what std::remove_if leaves behind on an exception is not specified beyond the size
        return "exc|" + std::to_string(c.size()) + "|" + std::to_string(th.calls) + "|" + std::to_string(seen_size);
      }
    });
  }
  if (fn == "uniqueifx" && np == 2)
  {
    ulong const R = ps[0], T = ps[1];
    if (!sq || R >= 512 || T > 8) return bad;
    return with_seq(k, v, [&](auto &c) {
      thrower th{T};
      try
      {
        alg::unique_if(c, [&](int const a, int const b) { th.tick(); return rel(R, a, b); });
        return ds(c) + "|" + std::to_string(th.calls);
      }
      catch (cb_exc const &)
      {
        return "exc|" + std::to_string(c.size()) + "|" + std::to_string(th.calls);
      }
    });
  }
  if (fn == "amapx" && np == 1)
  {
    ulong const T = ps[0];
    if (k != 'a' || T > 8) return bad;
    if (v.size() > 4) return skip;
    return with_size<4>(v.size(), [&](auto n) {
      seq log;
      thrower th{T};
      int const live0{ce::live};
      ce::defaults = 0;
      std::string out;
      try
      {
        auto const src{mk_array<SZ(n)>(v, 0)};
        auto const r{fcppt::array::map(src, [&](int const e) { log.push_back(e); th.tick(); return ce{(e + 1) % 3}; })};
        out = ds(r);
      }
      catch (cb_exc const &)
      {
        out = "exc";
      }
      // no element is default-constructed first; nothing stays alive
      return out + "|" + ds(log) + "|dc=" + std::to_string(ce::defaults) + "|live=" + std::to_string(ce::live - live0);
    });
  }
  if (fn == "ainitx" && np == 1)
  {
    // array::init with N = length of the sequence (its values are not used)
    ulong const T = ps[0];
    if (k != 'a' || T > 8) return bad;
    if (v.size() > 5) return skip;
    return with_size<5>(v.size(), [&](auto n) {
      seq log;
      thrower th{T};
      int const live0{ce::live};
      ce::defaults = 0;
      std::string out;
      try
      {
        auto const r{fcppt::array::init<fcppt::array::object<ce, SZ(n)>>(
            [&]<std::size_t I>(std::integral_constant<std::size_t, I>) {
              log.push_back(static_cast<int>(I));
              th.tick();
              return ce{static_cast<int>((I * I + 1) % 7)};
            })};
        out = ds(r);
      }
      catch (cb_exc const &)
      {
        out = "exc";
      }
      return out + "|" + ds(log) + "|dc=" + std::to_string(ce::defaults) + "|live=" + std::to_string(ce::live - live0);
    });
  }
  if (fn == "gennx" && np == 2)
  {
    // generate_n with count = length of the sequence
    ulong const t = ps[0], T = ps[1];
    if (k != 'v' || t > 2 || T > 8) return bad;
    return with_target(t, [&](auto target) {
      thrower th{T};
      try
      {
        auto const r{alg::generate_n<decltype(target)>(v.size(), [&] { th.tick(); return static_cast<int>((th.calls * th.calls) % 3); })};
        return ds(r) + "|" + std::to_string(th.calls);
      }
      catch (cb_exc const &)
      {
        return "exc|" + std::to_string(th.calls);
      }
    });
  }
  return std::nullopt;
}
