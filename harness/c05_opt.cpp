// C05 correspondence harness, family unit `opt` (see harness/c05_common.hpp and harness/c05.cpp)
#include "c05_common.hpp"

#include <fcppt/make_cref.hpp>
#include <fcppt/make_ref.hpp>
#include <fcppt/optional/alternative.hpp>
#include <fcppt/optional/assign.hpp>
#include <fcppt/optional/copy_value.hpp>
#include <fcppt/optional/make.hpp>
#include <fcppt/optional/make_if.hpp>
#include <fcppt/optional/maybe.hpp>
#include <fcppt/optional/maybe_multi.hpp>
#include <fcppt/optional/maybe_void.hpp>
#include <fcppt/optional/maybe_void_multi.hpp>
#include <fcppt/optional/reference.hpp>
#include <fcppt/optional/to_exception.hpp>
#include <fcppt/optional/apply.hpp>
#include <fcppt/optional/bind.hpp>
#include <fcppt/optional/cat.hpp>
#include <fcppt/optional/combine.hpp>
#include <fcppt/optional/filter.hpp>
#include <fcppt/optional/from.hpp>
#include <fcppt/optional/join.hpp>
#include <fcppt/optional/map.hpp>
#include <fcppt/optional/object.hpp>
#include <fcppt/optional/sequence.hpp>
#include <fcppt/optional/to_container.hpp>

namespace c05
{
namespace
{
template <typename T>
std::string op_opt1(std::string const &_op, line_t const &L)
{
  need(L.args.size() == 1);
  auto o{mk_opt<T>(L.args[0])};
  mark(o);
  auto const par{[&](std::size_t i) { need(L.par.size() > i && (L.par[i] == 0 || L.par[i] == 1)); return L.par[i] == 1; }};
  g_log.clear();
  if (_op == "optmap")
  {
    need(L.par.empty());
    opt<T> const r{with_cat<true>(L.cat(0), o, [](auto &&x) { return fcppt::optional::map(FWD(x), thru{}); })};
    event_log const log{g_log};
    return finish(opt_tag(r), opt_slots(r), {opt_slots(o)}, log);
  }
  if (_op == "optbind")
  {
    need(L.par.size() == 1);
    bool const keep{par(0)};
    opt<T> const r{with_cat<true>(
        L.cat(0),
        o,
        [keep](auto &&x)
        {
          return fcppt::optional::bind(
              FWD(x),
              [keep](auto &&e)
              {
                if (keep)
                  return opt<T>{thru{}(FWD(e))};
                ask(FWD(e));
                return opt<T>{};
              });
        })};
    event_log const log{g_log};
    return finish(opt_tag(r), opt_slots(r), {opt_slots(o)}, log);
  }
  if (_op == "optfrom")
  {
    need(L.par.empty());
    slots_t s;
    {
      T const r{with_cat<T::copyable>(L.cat(0), o, [](auto &&x) { return fcppt::optional::from(FWD(x), [] { return T{1000}; }); })};
      event_log const log{g_log};
      s.add(r);
      return finish("-", s.str(), {opt_slots(o)}, log);
    }
  }
  if (_op == "optalt")
  {
    need(L.par.size() == 1);
    bool const has{par(0)};
    opt<T> const r{with_cat<T::copyable>(
        L.cat(0), o, [has](auto &&x) { return fcppt::optional::alternative(FWD(x), [has] { return has ? opt<T>{T{1000}} : opt<T>{}; }); })};
    event_log const log{g_log};
    return finish(opt_tag(r), opt_slots(r), {opt_slots(o)}, log);
  }
  if (_op == "optfilter")
  {
    need(L.par.size() == 1);
    bool const keep{par(0)};
    opt<T> const r{with_cat<T::copyable>(
        L.cat(0),
        o,
        [keep](auto &&x)
        {
          return fcppt::optional::filter(
              FWD(x),
              [keep](auto &&e)
              {
                ask(FWD(e));
                return keep;
              });
        })};
    event_log const log{g_log};
    return finish(opt_tag(r), opt_slots(r), {opt_slots(o)}, log);
  }
  if (_op == "opttocont")
  {
    need(L.par.empty());
    std::vector<T> const r{
        with_cat<T::copyable>(L.cat(0), o, [](auto &&x) { return fcppt::optional::to_container<std::vector<T>>(FWD(x)); })};
    event_log const log{g_log};
    return finish("-", slots(r), {opt_slots(o)}, log);
  }
  throw bad_op{};
}

template <typename T>
std::string op_optjoin(line_t const &L)
{
  need(L.args.size() == 1 && L.par.size() == 1 && (L.par[0] == 0 || L.par[0] == 1) && L.n(0) <= 1 && (L.n(0) == 0 || L.par[0] == 1));
  opt<opt<T>> o{L.par[0] == 1 ? opt<opt<T>>{mk_opt<T>(L.args[0])} : opt<opt<T>>{}};
  mark(o);
  g_log.clear();
  opt<T> const r{with_cat<T::copyable>(L.cat(0), o, [](auto &&x) { return fcppt::optional::join(FWD(x)); })};
  event_log const log{g_log};
  slots_t s;
  if (o.has_value() && o.get_unsafe().has_value())
    s.add(o.get_unsafe().get_unsafe());
  return finish(opt_tag(r), opt_slots(r), {s.str()}, log);
}

template <typename T>
std::string op_opt2(std::string const &_op, line_t const &L)
{
  need(L.args.size() == 2 && L.par.empty());
  auto a{mk_opt<T>(L.args[0])};
  mark(a);
  auto b{mk_opt<T>(L.args[1])};
  mark(b);
  g_log.clear();
  if (_op == "optcombine")
  {
    opt<T> const r{with_cats2<T::copyable>(L, a, b, [](auto &&x, auto &&y) { return fcppt::optional::combine(FWD(x), FWD(y), sink_second{}); })};
    event_log const log{g_log};
    return finish(opt_tag(r), opt_slots(r), {opt_slots(a), opt_slots(b)}, log);
  }
  // optional::apply: both arguments reach the function, each with its own value category
  opt<pair2<T>> const r{with_cats2<true>(L, a, b, [](auto &&x, auto &&y) { return fcppt::optional::apply(both{}, FWD(x), FWD(y)); })};
  event_log const log{g_log};
  slots_t sr;
  if (r.has_value())
    add_pair(sr, r.get_unsafe());
  return finish(opt_tag(r), sr.str(), {opt_slots(a), opt_slots(b)}, log);
}

template <typename T>
std::string op_optvec(std::string const &_op, line_t const &L)
{
  need(L.args.size() == 1);
  auto v{mk_optvec<T>(L.args[0], L.par)};
  mark(v);
  g_log.clear();
  if (_op == "optseq")
  {
    opt<std::vector<T>> const r{
        with_cat<T::copyable>(L.cat(0), v, [](auto &&x) { return fcppt::optional::sequence<std::vector<T>>(FWD(x)); })};
    event_log const log{g_log};
    return finish(opt_tag(r), r.has_value() ? slots(r.get_unsafe()) : "-", {optvec_slots(v)}, log);
  }
  std::vector<T> const r{with_cat<T::copyable>(L.cat(0), v, [](auto &&x) { return fcppt::optional::cat<std::vector<T>>(FWD(x)); })};
  event_log const log{g_log};
  return finish("-", slots(r), {optvec_slots(v)}, log);
}

// ---------------------------------------------------------------- optional: constructors, assign, to_exception, maybe*, copy_value

template <typename T>
std::string op_opt_more(std::string const &_op, line_t const &L)
{
  if (_op == "optmake" || _op == "optctor")
  {
    need(L.args.size() == 1 && L.n(0) == 1 && L.par.empty());
    T x{L.args[0].ids[0]};
    mark(x);
    g_log.clear();
    opt<T> const r{with_cat<T::copyable>(
        L.cat(0),
        x,
        [&](auto &&v)
        {
          if (_op == "optmake")
            return fcppt::optional::make(FWD(v));
          return opt<T>{FWD(v)};
        })};
    event_log const log{g_log};
    slots_t sx;
    sx.add(x);
    return finish(opt_tag(r), opt_slots(r), {sx.str()}, log);
  }
  if (_op == "optassign")
  {
    // only the rvalue instantiation exists: the requires-clause compares Element with remove_cv_t<Arg> (a reference for an lvalue)
    need(L.args.size() == 2 && L.cat(0) == 'i' && L.cat(1) == 'r' && L.n(1) == 1 && L.par.empty());
    auto o{mk_opt<T>(L.args[0])};
    mark(o);
    T x{L.args[1].ids[0]};
    mark(x);
    g_log.clear();
    T &r{fcppt::optional::assign(o, std::move(x))};
    event_log const log{g_log};
    slots_t sx;
    sx.add(x);
    return finish("R" + std::to_string(r.id), "-", {opt_slots(o), sx.str()}, log);
  }
  if (_op == "opttoexc")
  {
    need(L.args.size() == 1 && L.par.empty());
    auto o{mk_opt<T>(L.args[0])};
    mark(o);
    g_log.clear();
    try
    {
      T const r{with_cat<T::copyable>(
          L.cat(0), o, [](auto &&x) { return fcppt::optional::to_exception(FWD(x), [] { return std::runtime_error{"nothing"}; }); })};
      event_log const log{g_log};
      slots_t sr;
      sr.add(r);
      return finish("-", sr.str(), {opt_slots(o)}, log);
    }
    catch (std::runtime_error const &)
    {
      event_log const log{g_log};
      return finish("exc", "-", {opt_slots(o)}, log);
    }
  }
  if (_op == "optmakeif")
  {
    need(L.args.empty() && L.par.size() == 1 && (L.par[0] == 0 || L.par[0] == 1));
    g_log.clear();
    opt<T> const r{fcppt::optional::make_if(L.par[0] == 1, [] { return T{1000}; })};
    event_log const log{g_log};
    return finish(opt_tag(r), opt_slots(r), {}, log);
  }
  if (_op == "optmaybe" || _op == "optmaybevoid")
  {
    need(L.args.size() == 1 && L.par.empty());
    auto o{mk_opt<T>(L.args[0])};
    mark(o);
    g_log.clear();
    if (_op == "optmaybe")
    {
      T const r{with_cat<true>(L.cat(0), o, [](auto &&x) { return fcppt::optional::maybe(FWD(x), [] { return T{1000}; }, thru{}); })};
      event_log const log{g_log};
      slots_t sr;
      sr.add(r);
      return finish("-", sr.str(), {opt_slots(o)}, log);
    }
    std::vector<T> sink;
    sink.reserve(4);
    with_cat<true>(
        L.cat(0),
        o,
        [&sink](auto &&x)
        {
          fcppt::optional::maybe_void(FWD(x), [&sink](auto &&e) { sink.push_back(thru{}(FWD(e))); });
          return 0;
        });
    event_log const log{g_log};
    return finish("-", slots(sink), {opt_slots(o)}, log);
  }
  if (_op == "optmaybemulti2" || _op == "optmaybevoidmulti2")
  {
    need(L.args.size() == 2 && L.par.empty());
    auto a{mk_opt<T>(L.args[0])};
    mark(a);
    auto b{mk_opt<T>(L.args[1])};
    mark(b);
    g_log.clear();
    if (_op == "optmaybemulti2")
    {
      std::vector<T> const r{with_cats2<true>(
          L,
          a,
          b,
          [](auto &&x, auto &&y)
          {
            return fcppt::optional::maybe_multi(
                []
                {
                  std::vector<T> v;
                  v.push_back(T{1000});
                  return v;
                },
                collect<T>{},
                FWD(x),
                FWD(y));
          })};
      event_log const log{g_log};
      return finish("-", slots(r), {opt_slots(a), opt_slots(b)}, log);
    }
    std::vector<T> sink;
    sink.reserve(4);
    with_cats2<true>(
        L,
        a,
        b,
        [&sink](auto &&x, auto &&y)
        {
          fcppt::optional::maybe_void_multi(
              [&sink](auto &&e, auto &&f)
              {
                sink.push_back(thru{}(FWD(e)));
                sink.push_back(thru{}(FWD(f)));
              },
              FWD(x),
              FWD(y));
          return 0;
        });
    event_log const log{g_log};
    return finish("-", slots(sink), {opt_slots(a), opt_slots(b)}, log);
  }
  if (_op == "optcombineself")
  {
    need(L.args.size() == 1 && L.par.empty() && (L.cat(0) == 'l' || L.cat(0) == 'c'));
    if constexpr (T::copyable)
    {
      auto o{mk_opt<T>(L.args[0])};
      mark(o);
      g_log.clear();
      opt<T> const r{
          L.cat(0) == 'l' ? fcppt::optional::combine(o, o, sink_second{})
                          : fcppt::optional::combine(std::as_const(o), std::as_const(o), sink_second{})};
      event_log const log{g_log};
      return finish(opt_tag(r), opt_slots(r), {opt_slots(o)}, log);
    }
    else
      throw bad_op{};
  }
  if (_op == "optcopyvalue")
  {
    // an optional reference (T & for `l`, T const & for `c`); copy_value copies the referenced object
    need(L.args.size() == 1 && L.n(0) <= 1 && L.par.empty() && (L.cat(0) == 'l' || L.cat(0) == 'c'));
    if constexpr (T::copyable)
    {
      T x{L.n(0) == 1 ? L.args[0].ids[0] : 0};
      mark(x);
      g_log.clear();
      opt<T> const r{
          L.cat(0) == 'l'
              ? fcppt::optional::copy_value(
                    L.n(0) == 1 ? fcppt::optional::reference<T>{fcppt::make_ref(x)} : fcppt::optional::reference<T>{})
              : fcppt::optional::copy_value(
                    L.n(0) == 1 ? fcppt::optional::reference<T const>{fcppt::make_cref(x)} : fcppt::optional::reference<T const>{})};
      event_log const log{g_log};
      slots_t sx;
      if (L.n(0) == 1)
        sx.add(x);
      return finish(opt_tag(r), opt_slots(r), {sx.str()}, log);
    }
    else
      throw bad_op{};
  }
  throw bad_op{};
}

template <typename T>
bool dispatch(std::string const &_op, line_t const &L, std::string &_out)
{
  if (_op == "optmap")
    return (_out = op_opt1<T>(_op, L), true);
  if (_op == "optbind")
    return (_out = op_opt1<T>(_op, L), true);
  if (_op == "optfrom")
    return (_out = op_opt1<T>(_op, L), true);
  if (_op == "optalt")
    return (_out = op_opt1<T>(_op, L), true);
  if (_op == "optfilter")
    return (_out = op_opt1<T>(_op, L), true);
  if (_op == "opttocont")
    return (_out = op_opt1<T>(_op, L), true);
  if (_op == "optjoin")
    return (_out = op_optjoin<T>(L), true);
  if (_op == "optcombine")
    return (_out = op_opt2<T>(_op, L), true);
  if (_op == "optapply2")
    return (_out = op_opt2<T>(_op, L), true);
  if (_op == "optmake" || _op == "optctor" || _op == "optassign" || _op == "opttoexc" || _op == "optmakeif" || _op == "optmaybe" ||
      _op == "optmaybevoid" || _op == "optmaybemulti2" || _op == "optmaybevoidmulti2" || _op == "optcopyvalue" || _op == "optcombineself")
    return (_out = op_opt_more<T>(_op, L), true);
  if (_op == "optseq")
    return (_out = op_optvec<T>(_op, L), true);
  if (_op == "optcat")
    return (_out = op_optvec<T>(_op, L), true);
  return false;
}
}

C05_FAMILY(family_opt) { return C05_RUN(dispatch); }
}
