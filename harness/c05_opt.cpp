// C05 correspondence harness, family unit `opt` (see harness/c05_common.hpp and harness/c05.cpp)
#include "c05_common.hpp"

#include <fcppt/optional/alternative.hpp>
#include <fcppt/optional/apply.hpp>
#include <fcppt/optional/bind.hpp>
#include <fcppt/optional/cat.hpp>
#include <fcppt/optional/combine.hpp>
#include <fcppt/optional/filter.hpp>
#include <fcppt/optional/from.hpp>
#include <fcppt/optional/join.hpp>
#include <fcppt/optional/map.hpp>
#include <fcppt/optional/object.hpp>
#include <fcppt/optional/sequence.hpp>
#include <fcppt/optional/to_container.hpp>

namespace c05
{
namespace
{
template <typename T>
std::string op_opt1(std::string const &_op, line_t const &L)
{
  need(L.args.size() == 1);
  auto o{mk_opt<T>(L.args[0])};
  mark(o);
  auto const par{[&](std::size_t i) { need(L.par.size() > i && (L.par[i] == 0 || L.par[i] == 1)); return L.par[i] == 1; }};
  g_log.clear();
  if (_op == "optmap")
  {
    need(L.par.empty());
    opt<T> const r{with_cat<true>(L.cat(0), o, [](auto &&x) { return fcppt::optional::map(FWD(x), thru{}); })};
    event_log const log{g_log};
    return finish(opt_tag(r), opt_slots(r), {opt_slots(o)}, log);
  }
  if (_op == "optbind")
  {
    need(L.par.size() == 1);
    bool const keep{par(0)};
    opt<T> const r{with_cat<true>(
        L.cat(0),
        o,
        [keep](auto &&x)
        {
          return fcppt::optional::bind(
              FWD(x),
              [keep](auto &&e)
              {
                e.read();
                return keep ? opt<T>{thru{}(FWD(e))} : opt<T>{};
              });
        })};
    event_log const log{g_log};
    return finish(opt_tag(r), opt_slots(r), {opt_slots(o)}, log);
  }
  if (_op == "optfrom")
  {
    need(L.par.empty());
    slots_t s;
    {
      T const r{with_cat<T::copyable>(L.cat(0), o, [](auto &&x) { return fcppt::optional::from(FWD(x), [] { return T{1000}; }); })};
      event_log const log{g_log};
      s.add(r);
      return finish("-", s.str(), {opt_slots(o)}, log);
    }
  }
  if (_op == "optalt")
  {
    need(L.par.size() == 1);
    bool const has{par(0)};
    opt<T> const r{with_cat<T::copyable>(
        L.cat(0), o, [has](auto &&x) { return fcppt::optional::alternative(FWD(x), [has] { return has ? opt<T>{T{1000}} : opt<T>{}; }); })};
    event_log const log{g_log};
    return finish(opt_tag(r), opt_slots(r), {opt_slots(o)}, log);
  }
  if (_op == "optfilter")
  {
    need(L.par.size() == 1);
    bool const keep{par(0)};
    opt<T> const r{with_cat<T::copyable>(
        L.cat(0),
        o,
        [keep](auto &&x)
        {
          return fcppt::optional::filter(
              FWD(x),
              [keep](T const &e)
              {
                e.read();
                return keep;
              });
        })};
    event_log const log{g_log};
    return finish(opt_tag(r), opt_slots(r), {opt_slots(o)}, log);
  }
  if (_op == "opttocont")
  {
    need(L.par.empty());
    std::vector<T> const r{
        with_cat<T::copyable>(L.cat(0), o, [](auto &&x) { return fcppt::optional::to_container<std::vector<T>>(FWD(x)); })};
    event_log const log{g_log};
    return finish("-", slots(r), {opt_slots(o)}, log);
  }
  throw bad_op{};
}

template <typename T>
std::string op_optjoin(line_t const &L)
{
  need(L.args.size() == 1 && L.par.size() == 1 && (L.par[0] == 0 || L.par[0] == 1) && L.n(0) <= 1 && (L.n(0) == 0 || L.par[0] == 1));
  opt<opt<T>> o{L.par[0] == 1 ? opt<opt<T>>{mk_opt<T>(L.args[0])} : opt<opt<T>>{}};
  mark(o);
  g_log.clear();
  opt<T> const r{with_cat<T::copyable>(L.cat(0), o, [](auto &&x) { return fcppt::optional::join(FWD(x)); })};
  event_log const log{g_log};
  slots_t s;
  if (o.has_value() && o.get_unsafe().has_value())
    s.add(o.get_unsafe().get_unsafe());
  return finish(opt_tag(r), opt_slots(r), {s.str()}, log);
}

template <typename T>
std::string op_opt2(std::string const &_op, line_t const &L)
{
  need(L.args.size() == 2 && L.par.empty());
  auto a{mk_opt<T>(L.args[0])};
  mark(a);
  auto b{mk_opt<T>(L.args[1])};
  mark(b);
  g_log.clear();
  bool const comb{_op == "optcombine"};
  opt<T> const r{with_cat<T::copyable>(
      L.cat(0),
      a,
      [&](auto &&x)
      {
        return with_cat<T::copyable>(
            L.cat(1),
            b,
            [&](auto &&y)
            {
              if (comb)
                return fcppt::optional::combine(FWD(x), FWD(y), first_of_two{});
              return fcppt::optional::apply(first_of_two{}, FWD(x), FWD(y));
            });
      })};
  event_log const log{g_log};
  return finish(opt_tag(r), opt_slots(r), {opt_slots(a), opt_slots(b)}, log);
}

template <typename T>
std::string op_optvec(std::string const &_op, line_t const &L)
{
  need(L.args.size() == 1);
  auto v{mk_optvec<T>(L.args[0], L.par)};
  mark(v);
  g_log.clear();
  if (_op == "optseq")
  {
    opt<std::vector<T>> const r{
        with_cat<T::copyable>(L.cat(0), v, [](auto &&x) { return fcppt::optional::sequence<std::vector<T>>(FWD(x)); })};
    event_log const log{g_log};
    return finish(opt_tag(r), r.has_value() ? slots(r.get_unsafe()) : "-", {optvec_slots(v)}, log);
  }
  std::vector<T> const r{with_cat<T::copyable>(L.cat(0), v, [](auto &&x) { return fcppt::optional::cat<std::vector<T>>(FWD(x)); })};
  event_log const log{g_log};
  return finish("-", slots(r), {optvec_slots(v)}, log);
}

template <typename T>
bool dispatch(std::string const &_op, line_t const &L, std::string &_out)
{
  if (_op == "optmap")
    return (_out = op_opt1<T>(_op, L), true);
  if (_op == "optbind")
    return (_out = op_opt1<T>(_op, L), true);
  if (_op == "optfrom")
    return (_out = op_opt1<T>(_op, L), true);
  if (_op == "optalt")
    return (_out = op_opt1<T>(_op, L), true);
  if (_op == "optfilter")
    return (_out = op_opt1<T>(_op, L), true);
  if (_op == "opttocont")
    return (_out = op_opt1<T>(_op, L), true);
  if (_op == "optjoin")
    return (_out = op_optjoin<T>(L), true);
  if (_op == "optcombine")
    return (_out = op_opt2<T>(_op, L), true);
  if (_op == "optapply2")
    return (_out = op_opt2<T>(_op, L), true);
  if (_op == "optseq")
    return (_out = op_optvec<T>(_op, L), true);
  if (_op == "optcat")
    return (_out = op_optvec<T>(_op, L), true);
  return false;
}
}

C05_FAMILY(family_opt) { return C05_RUN(dispatch); }
}
