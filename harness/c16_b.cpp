// C16 correspondence harness, part b of the per-function evaluation (see c16_common.hpp)
#include "c16_common.hpp"

c16::result c16::eval_b(std::string const &fn, char const k, params const &ps, std::vector<int> const &v)
{
  C16_PREAMBLE
  if (fn == "indexof" && np == 1)
  {
    ulong const V = ps[0];
    if (!(k == 'v' || k == 'd' || k == 'a') || V >= 3) return bad;
    auto const show = [](auto const &o) { return o.has_value() ? std::to_string(o.get_unsafe()) : std::string{"none"}; };
    if (k == 'a')
      return with_size<6>(v.size(), [&](auto n) { return show(alg::index_of(mk_array<SZ(n)>(v, 0), static_cast<int>(V))); });
    return with_seq(k, v, [&](auto &c) -> std::string {
      if constexpr (std::is_same_v<std::remove_cvref_t<decltype(c)>, std::list<int>>) return bad;
      else return show(alg::index_of(c, static_cast<int>(V)));
    });
  }
  if ((fn == "eqrange" || fn == "bsearch") && np == 1)
  {
    ulong const V = ps[0];
    if (!(sq || k == 's') || V >= 3) return bad;
    return with_seq_set(k, v, [&](auto &c) {
      int const value{static_cast<int>(V)};
      if (fn == "eqrange")
      {
        auto const r{alg::equal_range(c, value)};
        auto const &cc{c};
        auto const r2{alg::equal_range(cc, value)};
        std::string const a{std::to_string(std::distance(c.begin(), r.begin())) + "," + std::to_string(std::distance(c.begin(), r.end()))};
        std::string const b{std::to_string(std::distance(cc.begin(), r2.begin())) + "," + std::to_string(std::distance(cc.begin(), r2.end()))};
        return a == b ? a : a + "!=" + b;
      }
      // both the const and the non-const overload
      auto const &cc{c};
      std::string const a{opt_idx(c, alg::binary_search(c, value))};
      std::string const b{opt_idx(cc, alg::binary_search(cc, value))};
      return a == b ? a : a + "!=" + b;
    });
  }
  if ((fn == "removeif" || fn == "remove") && np == 1)
  {
    ulong const P = ps[0];
    if (!sq || (fn == "remove" ? P >= 3 : P >= 8)) return bad;
    return with_seq(k, v, [&](auto &c) {
      bool const r = fn == "remove" ? alg::remove(c, static_cast<int>(P)) : alg::remove_if(c, [P](int const e) { return bit(P, e); });
      return std::string{b01(r)} + "|" + ds(c);
    });
  }
  if (fn == "unique" && np == 0)
  {
    if (!sq) return bad;
    return with_seq(k, v, [&](auto &c) { alg::unique(c); return ds(c); });
  }
  if (fn == "uniqueif" && np == 1)
  {
    ulong const R = ps[0];
    if (!sq || R >= 512) return bad;
    return with_seq(k, v, [&](auto &c) { alg::unique_if(c, [R](int const a, int const b) { return rel(R, a, b); }); return ds(c); });
  }
  if (fn == "reverse" && np == 0)
  {
    if (!sq) return bad;
    return with_seq(k, v, [&](auto &c) {
      auto const &cc{c};
      auto const before{c};
      std::string const a{ds(alg::reverse(cc))};                // lvalue: copy
      if (c != before) return std::string{"source-modified"};
      std::string const b{ds(alg::reverse(std::move(c)))};      // rvalue: in place
      return a == b ? a : a + "!=" + b;
    });
  }
  if (fn == "seqiter" && np == 1)
  {
    ulong const R = ps[0];
    if (!sq || R >= 16) return bad;
    return with_seq(k, v, [&](auto &c) {
      seq log;
      // R < 8: the answer depends on the element; R >= 8: on the element and on the number of calls so far
      alg::sequence_iteration(c, [&log, R](int const e) {
        int const n{R >= 8 ? static_cast<int>(log.size()) : 0};
        log.push_back(e);
        return bit(R % 8, (e + n) % 3) ? alg::update_action::remove : alg::update_action::keep;
      });
      return ds(c) + "|" + ds(log);
    });
  }
  if (fn == "atopt" && np == 1)
  {
    if (!(k == 'v' || k == 'd' || k == 'a') || ps[0] > 1005) return bad;
    // below 1000 as they are; 1000.. = indices that differ from small ones only in the high bits
    static constexpr ulong big[] = {1UL << 31U, 1UL << 32U, (1UL << 32U) + 1UL, 1UL << 63U, ~0UL, (1UL << 33U) + 2UL};
    ulong const I = ps[0] < 1000 ? ps[0] : big[ps[0] - 1000];
    auto const show = [I](auto &c, auto const &o) {
      if (!o.has_value()) return std::string{"none"};
      // the reference must be the element inside the container
      return std::to_string(o.get_unsafe().get()) + (&o.get_unsafe().get() == &*(c.begin() + static_cast<std::ptrdiff_t>(I)) ? "" : "!ref");
    };
    if (k == 'a')
      return with_size<6>(v.size(), [&](auto n) { auto a{mk_array<SZ(n)>(v, 0)}; return show(a, con::at_optional(a, I)); });
    return with_seq(k, v, [&](auto &c) -> std::string {
      if constexpr (std::is_same_v<std::remove_cvref_t<decltype(c)>, std::list<int>>) return bad;
      else
      {
        auto const &cc{c};
        std::string const a{show(c, con::at_optional(c, I))}, b{show(cc, con::at_optional(cc, I))};
        return a == b ? a : a + "!=" + b;
      }
    });
  }
  if (fn == "join" && np == 3)
  {
    ulong const K = ps[0], c1 = ps[1], c2 = ps[2];
    if (!(sq || k == 's') || K < 1 || K > 5 || c1 > c2 || c2 > v.size()) return bad;
    return with_seq_set(k, v, [&](auto &proto) {
      using C = std::remove_cvref_t<decltype(proto)>;
      auto const b0 = v.begin();
      using diff = seq::difference_type;
      C const whole(v.begin(), v.end());
      C const a(b0, b0 + static_cast<diff>(c1)), b(b0 + static_cast<diff>(c1), b0 + static_cast<diff>(c2)), c(b0 + static_cast<diff>(c2), v.end());
      C const bc(b0 + static_cast<diff>(c1), v.end());
      std::string l, r;
      if (K == 4 || K == 5)
      {
        // the same object as several arguments (non-const lvalue)
        C w(v.begin(), v.end());
        std::string const j{K == 4 ? ds(con::join(w, w)) : ds(con::join(w, w, w))};
        return w == whole ? j : j + "!source-modified";
      }
      if (K == 1) { l = ds(con::join(whole)); r = ds(con::join(C{whole})); }
      else if (K == 2) { l = ds(con::join(a, bc)); r = ds(con::join(C{a}, C{bc})); }
      else { l = ds(con::join(a, b, c)); r = ds(con::join(C{a}, b, C{c})); }
      return l == r ? l : l + "!=" + r;
    });
  }
  if (fn == "amap" && np == 1)
  {
    ulong const F = ps[0];
    if (k != 'a' || F >= 27) return bad;
    return with_size<6>(v.size(), [&](auto n) {
      auto const src{mk_array<SZ(n)>(v, 0)};
      std::string const a{ds(fcppt::array::map(src, [F](int const e) { return tbl_f(F, e); }))};
      // the same through algorithm::map (map_array.hpp)
      std::string const b{ds(alg::map<fcppt::array::object<int, SZ(n)>>(src, [F](int const e) { return tbl_f(F, e); }))};
      return a == b ? a : a + "!=" + b;
    });
  }
  if (fn == "aappend" && np == 1)
  {
    ulong const c1 = ps[0];
    if (k != 'a' || c1 > v.size() || c1 > 3 || v.size() - c1 > 3) return bad;
    return with_size<3>(c1, [&](auto n1) {
      return with_size<3>(v.size() - c1, [&](auto n2) {
        return ds(fcppt::array::append(mk_array<SZ(n1)>(v, 0), mk_array<SZ(n2)>(v, c1)));
      });
    });
  }
  if (fn == "ajoin" && np == 2)
  {
    ulong const c1 = ps[0], c2 = ps[1];
    if (k != 'a' || c1 > c2 || c2 > v.size() || c1 > 2 || c2 - c1 > 2 || v.size() - c2 > 2) return bad;
    return with_size<2>(c1, [&](auto n1) {
      return with_size<2>(c2 - c1, [&](auto n2) {
        return with_size<2>(v.size() - c2, [&](auto n3) {
          return ds(fcppt::array::join(mk_array<SZ(n1)>(v, 0), mk_array<SZ(n2)>(v, c1), mk_array<SZ(n3)>(v, c2)));
        });
      });
    });
  }
  if (fn == "apush" && np == 1)
  {
    ulong const V = ps[0];
    if (k != 'a' || v.size() > 5 || V >= 3) return bad;
    return with_size<5>(v.size(), [&](auto n) { return ds(fcppt::array::push_back(mk_array<SZ(n)>(v, 0), static_cast<int>(V))); });
  }
  if (fn == "afrom" && np == 1)
  {
    ulong const N = ps[0];
    if (!(k == 'v' || k == 'd') || N > 4) return bad;
    return with_size<4>(N, [&](auto n) {
      auto const show = [](auto const &o) { return o.has_value() ? ds(o.get_unsafe()) : std::string{"none"}; };
      if (k == 'v') { std::vector<int> const c(v.begin(), v.end()); return show(fcppt::array::from_range<SZ(n)>(c)); }
      std::deque<int> const c(v.begin(), v.end());
      return show(fcppt::array::from_range<SZ(n)>(c));
    });
  }
  if (fn == "tmap" && np == 1)
  {
    ulong const F = ps[0];
    if (k != 't' || F >= 27) return bad;
    return with_size<3>(v.size(), [&](auto n) {
      auto const src{mk_tuple<SZ(n)>(v, 0)};
      auto const f = [F](auto const e) { return static_cast<long>(tbl_f(F, val(e))); };
      std::string const a{ds_tuple(fcppt::tuple::map(src, f))};
      // the same through algorithm::map (map_tuple.hpp)
      std::string const b{ds_tuple(alg::map<decltype(fcppt::tuple::map(src, f))>(src, f))};
      return a == b ? a : a + "!=" + b;
    });
  }
  if (fn == "tpush" && np == 1)
  {
    ulong const V = ps[0];
    if (k != 't' || v.size() > 2 || V >= 3) return bad;
    return with_size<2>(v.size(), [&](auto n) { return ds_tuple(fcppt::tuple::push_back(mk_tuple<SZ(n)>(v, 0), static_cast<short>(V))); });
  }
  if (fn == "tconcat" && np == 2)
  {
    ulong const c1 = ps[0], c2 = ps[1];
    if (k != 't' || c1 > c2 || c2 > v.size()) return bad;
    return with_size<3>(c1, [&](auto n1) {
      return with_size<3>(c2 - c1, [&](auto n2) {
        return with_size<3>(v.size() - c2, [&](auto n3) -> std::string {
          if constexpr (SZ(n1) + SZ(n2) + SZ(n3) > 3) return bad;
          else
            return ds_tuple(fcppt::tuple::concat(mk_tuple<SZ(n1)>(v, 0), mk_tuple<SZ(n2)>(v, c1), mk_tuple<SZ(n3)>(v, c2)));
        });
      });
    });
  }
  return std::nullopt;
}
