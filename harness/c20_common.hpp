// Shared by harness/c20.cpp and harness/c20_scripts.cpp (two translation units so that they compile in parallel).
#ifndef VERIF_HARNESS_C20_COMMON_HPP
#define VERIF_HARNESS_C20_COMMON_HPP
#include "common/vh.hpp"

#include <fcppt/make_cref.hpp>
#include <fcppt/make_ref.hpp>
#include <fcppt/make_strong_typedef.hpp>
#include <fcppt/reference_impl.hpp>
#include <fcppt/strong_typedef.hpp>
#include <fcppt/optional/object_impl.hpp>
#include <fcppt/random/make_variate.hpp>
#include <fcppt/random/variate.hpp>
#include <fcppt/random/distribution/basic.hpp>
#include <fcppt/random/distribution/make_basic.hpp>
#include <fcppt/random/distribution/parameters/make_uniform_enum.hpp>
#include <fcppt/random/distribution/parameters/make_uniform_enum_advanced.hpp>
#include <fcppt/random/distribution/parameters/make_uniform_indices.hpp>
#include <fcppt/random/distribution/parameters/make_uniform_indices_advanced.hpp>
#include <fcppt/random/distribution/parameters/normal.hpp>
#include <fcppt/random/distribution/parameters/uniform_int.hpp>
#include <fcppt/random/distribution/parameters/uniform_int_wrapper.hpp>
#include <fcppt/random/distribution/parameters/uniform_real.hpp>
#include <fcppt/random/generator/basic_pseudo_impl.hpp>
#include <fcppt/random/generator/minstd_rand.hpp>
#include <fcppt/random/generator/mt19937.hpp>
#include <fcppt/random/generator/seed_from_chrono.hpp>
#include <fcppt/random/distribution/base_type.hpp>
#include <fcppt/random/distribution/base_value.hpp>
#include <fcppt/random/distribution/decorated_value.hpp>
#include <fcppt/random/wrapper/make_uniform_container.hpp>
#include <fcppt/random/wrapper/make_uniform_container_advanced.hpp>
#include <fcppt/random/wrapper/uniform_container.hpp>
#include <fcppt/type_iso/enum.hpp>
#include <fcppt/type_iso/strong_typedef.hpp>
#include <fcppt/type_iso/decorate.hpp>
#include <fcppt/type_iso/undecorate.hpp>
#include <fcppt/type_iso/undecorated_type.hpp>

#include <array>
#include <cstdint>
#include <cstring>
#include <memory>
#include <utility>
#include <deque>
#include <optional>
#include <random>
#include <sstream>
#include <stdexcept>
#include <string>
#include <type_traits>
#include <vector>

// one type for both translation units (a type in an unnamed namespace would be a different type in each of them, and
// the handler in c20.cpp would not recognise what c20_scripts.cpp throws)
struct c20_bad_op : std::runtime_error
{
  c20_bad_op() : std::runtime_error("bad-op") {}
};

namespace
{
using bad_op = c20_bad_op;

// ---------------------------------------------------------------- result types
enum class e1 { v0, fcppt_maximum = v0 };
enum class e2 { v0, v1, fcppt_maximum = v1 };
enum class e3 { v0, v1, v2, fcppt_maximum = v2 };
enum class e4 { v0, v1, v2, v3, fcppt_maximum = v3 };
enum class e5 { v0, v1, v2, v3, v4, fcppt_maximum = v4 };
enum class e6 { v0, v1, v2, v3, v4, v5, fcppt_maximum = v5 };
enum class e7 { v0, v1, v2, v3, v4, v5, v6, fcppt_maximum = v6 };
enum class e8 { v0, v1, v2, v3, v4, v5, v6, v7, fcppt_maximum = v7 };
enum class e9 { v0, v1, v2, v3, v4, v5, v6, v7, v8, fcppt_maximum = v8 };

template <typename T>
struct tag
{
};

// shape<R>: how to build an R from its base value and how to print it, *without* fcppt::type_iso
template <typename R, typename Enable = void>
struct shape
{
  using base = R;
  static R make(base const x) { return x; }
  static base strip(R const &x) { return x; }
  static std::string inner(base const x)
  {
    if constexpr (std::is_floating_point_v<R>)
    {
      using U = std::conditional_t<sizeof(R) == 4, std::uint32_t, std::uint64_t>;
      U u;
      std::memcpy(&u, &x, sizeof u);
      return std::to_string(u);
    }
    else
      return std::to_string(x);
  }
  static std::string print(R const &x) { return inner(x); }
};

template <typename T, typename Tag>
struct shape<fcppt::strong_typedef<T, Tag>>
{
  using R = fcppt::strong_typedef<T, Tag>;
  using base = typename shape<T>::base;
  static R make(base const x) { return R{shape<T>::make(x)}; }
  static base strip(R const &x) { return shape<T>::strip(x.get()); }
  static std::string inner(base const x) { return shape<T>::inner(x); }
  static std::string print(R const &x) { return "S(" + shape<T>::print(x.get()) + ")"; }
};

template <typename E>
struct shape<E, std::enable_if_t<std::is_enum_v<E>>>
{
  using base = std::underlying_type_t<E>;
  static E make(base const x) { return static_cast<E>(x); }
  static base strip(E const x) { return static_cast<base>(x); }
  static std::string inner(base const x) { return std::to_string(x); }
  static std::string print(E const x) { return "E(" + std::to_string(static_cast<base>(x)) + ")"; }
};

template <typename T>
struct st
{
  FCPPT_MAKE_STRONG_TYPEDEF(T, one);
  FCPPT_MAKE_STRONG_TYPEDEF(one, two);
};

// ---------------------------------------------------------------- a non-standard engine / distribution pair
// (the same two definitions exist in Lean: Spec/C20.lean `ctrEngine`, `modDist`)
struct ctr_engine
{
  using result_type = std::uint32_t;
  explicit ctr_engine(result_type const s) : s_{s} {}
  result_type operator()() { return s_++; }
  static constexpr result_type min() { return 0U; }
  static constexpr result_type max() { return 0xFFFFFFFFU; }
  result_type s_;
};

template <typename T>
class mod_dist
{
public:
  using result_type = T;
  class param_type
  {
  public:
    using distribution_type = mod_dist;
    param_type(T const a, T const b) : a_{a}, b_{b} {}
    [[nodiscard]] T a() const { return a_; }
    [[nodiscard]] T b() const { return b_; }
    friend bool operator==(param_type const &l, param_type const &r) { return l.a_ == r.a_ && l.b_ == r.b_; }
  private:
    T a_, b_;
  };
  explicit mod_dist(param_type const &p) : p_{p} {}
  void reset() { k_ = 0U; }
  [[nodiscard]] param_type param() const { return p_; }
  void param(param_type const &p) { p_ = p; }
  [[nodiscard]] T a() const { return p_.a(); }
  [[nodiscard]] T b() const { return p_.b(); }
  [[nodiscard]] T min() const { return p_.a(); }
  [[nodiscard]] T max() const { return p_.b(); }
  [[nodiscard]] std::uint32_t k() const { return k_; }
  // stateful on purpose: the k-th value since construction / reset() is a + (g() + k(k+1)/2) % (b - a + 1)
  template <typename G>
  T operator()(G &g)
  {
    unsigned long long const range =
        static_cast<unsigned long long>(p_.b()) - static_cast<unsigned long long>(p_.a()) + 1ULL;
    unsigned long long const k = k_;
    unsigned long long const raw = static_cast<unsigned long long>(g()) + k * (k + 1ULL) / 2ULL;
    ++k_;
    return static_cast<T>(static_cast<long long>(p_.a()) + static_cast<long long>(raw % range));
  }
  friend bool operator==(mod_dist const &l, mod_dist const &r) { return l.p_ == r.p_ && l.k_ == r.k_; }
  friend bool operator!=(mod_dist const &l, mod_dist const &r) { return !(l == r); }
  template <typename Ch, typename Tr>
  friend std::basic_ostream<Ch, Tr> &operator<<(std::basic_ostream<Ch, Tr> &s, mod_dist const &d)
  {
    return s << static_cast<long long>(d.p_.a()) << ' ' << static_cast<long long>(d.p_.b()) << ' ' << d.k_;
  }
private:
  param_type p_;
  std::uint32_t k_{0U};
};

struct mod_wrapper
{
  template <typename Type>
  struct apply
  {
    using type = mod_dist<Type>;
  };
};

using fc_minstd = fcppt::random::generator::minstd_rand;
using fc_mt = fcppt::random::generator::mt19937;
using fc_ctr = fcppt::random::generator::basic_pseudo<ctr_engine>;

// ---------------------------------------------------------------- segments
std::vector<std::string> split(std::string const &s, char const c)
{
  std::vector<std::string> r;
  std::size_t pos = 0;
  while (true)
  {
    std::size_t const next = s.find(c, pos);
    r.push_back(s.substr(pos, next == std::string::npos ? next : next - pos));
    if (next == std::string::npos)
      break;
    pos = next + 1;
  }
  return r;
}

enum class act { new_, set, rst };

struct seg
{
  act a;
  std::string p1, p2; // parameters, textual
  std::size_t n;
};

seg parse_seg(std::string const &t, bool const with_tape)
{
  auto const f = split(t, ':');
  if (f.size() != (with_tape ? 5U : 4U))
    throw bad_op{};
  act const a = f[0] == "new" ? act::new_ : f[0] == "set" ? act::set : f[0] == "rst" ? act::rst : throw bad_op{};
  std::size_t const n = std::stoul(f[3]);
  if (n > 100000U)
    throw bad_op{};
  return seg{a, f[1], f[2], n};
}

template <typename B>
B parse_base(std::string const &s)
{
  if constexpr (std::is_floating_point_v<B>)
  {
    using U = std::conditional_t<sizeof(B) == 4, std::uint32_t, std::uint64_t>;
    unsigned long long const v = std::stoull(s);
    U const u = static_cast<U>(v);
    if (u != v)
      throw bad_op{};
    B r;
    std::memcpy(&r, &u, sizeof r);
    return r;
  }
  else if constexpr (std::is_signed_v<B>)
  {
    long long const v = std::stoll(s);
    B const r = static_cast<B>(v);
    if (static_cast<long long>(r) != v)
      throw bad_op{};
    return r;
  }
  else
  {
    unsigned long long const v = std::stoull(s);
    B const r = static_cast<B>(v);
    if (static_cast<unsigned long long>(r) != v)
      throw bad_op{};
    return r;
  }
}

template <typename C>
std::string join_str(C const &c)
{
  std::string r;
  bool first = true;
  for (auto const &e : c)
  {
    if (!first)
      r += ',';
    first = false;
    r += e;
  }
  return r.empty() ? "-" : r;
}

// ---------------------------------------------------------------- distribution kinds
struct k_int
{
  template <typename R, typename W>
  using params = fcppt::random::distribution::parameters::uniform_int<R, W>;
  template <typename B>
  using stddist = std::uniform_int_distribution<B>;
  template <typename P, typename R>
  static P make(R const &a, R const &b) { return P{typename P::min{a}, typename P::max{b}}; }
  template <typename D, typename R>
  static D make2(R const &a, R const &b)
  {
    using P = typename D::param_type;
    return D{typename P::min{a}, typename P::max{b}};
  }
  template <typename S>
  static auto first(S const &d) { return d.a(); }
  template <typename S>
  static auto second(S const &d) { return d.b(); }
  static constexpr bool has_ends = true;
};

struct no_wrapper
{
};

struct k_real
{
  template <typename R, typename W>
  using params = fcppt::random::distribution::parameters::uniform_real<R>;
  template <typename B>
  using stddist = std::uniform_real_distribution<B>;
  template <typename P, typename R>
  static P make(R const &a, R const &b) { return P{typename P::min{a}, typename P::sup{b}}; }
  template <typename D, typename R>
  static D make2(R const &a, R const &b)
  {
    using P = typename D::param_type;
    return D{typename P::min{a}, typename P::sup{b}};
  }
  template <typename S>
  static auto first(S const &d) { return d.a(); }
  template <typename S>
  static auto second(S const &d) { return d.b(); }
  static constexpr bool has_ends = false;
};

struct k_normal
{
  template <typename R, typename W>
  using params = fcppt::random::distribution::parameters::normal<R>;
  template <typename B>
  using stddist = std::normal_distribution<B>;
  template <typename P, typename R>
  static P make(R const &a, R const &b) { return P{typename P::mean{a}, typename P::stddev{b}}; }
  template <typename D, typename R>
  static D make2(R const &a, R const &b)
  {
    using P = typename D::param_type;
    return D{typename P::mean{a}, typename P::stddev{b}};
  }
  template <typename S>
  static auto first(S const &d) { return d.mean(); }
  template <typename S>
  static auto second(S const &d) { return d.stddev(); }
  static constexpr bool has_ends = false;
};

FCPPT_MAKE_STRONG_TYPEDEF(e3, strong_e3);

template <typename F>
std::string with_enum(unsigned const k, F const &f)
{
  switch (k)
  {
  case 1: return f(tag<e1>{});
  case 2: return f(tag<e2>{});
  case 3: return f(tag<e3>{});
  case 4: return f(tag<e4>{});
  case 5: return f(tag<e5>{});
  case 6: return f(tag<e6>{});
  case 7: return f(tag<e7>{});
  case 8: return f(tag<e8>{});
  case 9: return f(tag<e9>{});
  default: throw bad_op{};
  }
}

using uiw = fcppt::random::distribution::parameters::uniform_int_wrapper;

template <typename Cont>
std::size_t index_of(Cont const &c, typename Cont::value_type const &r)
{
  for (std::size_t i = 0; i < c.size(); ++i)
    if (&c[i] == &r)
      return i;
  return static_cast<std::size_t>(-1); // not an element of the container: never equals a model index
}
}

// defined in c20_scripts.cpp: the XS / IS / RS / XU / G2 / TI / SC lines and the `std IS|RS|G2` oracle lines; throws like the ops of c20.cpp
std::string c20_scripts(std::vector<std::string> const &);

#endif
