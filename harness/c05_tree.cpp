// C05 correspondence harness, family unit `tree` (see harness/c05_common.hpp and harness/c05.cpp)
#include "c05_common.hpp"

#include <fcppt/container/tree/map.hpp>
#include <fcppt/container/tree/object.hpp>

#include <iterator>

namespace c05
{
namespace
{
// ---------------------------------------------------------------- tree (root value + leaf children)

template <typename T>
using tree = fcppt::container::tree::object<T>;

template <typename T>
tree<T> mk_tree(arg_t const &_a)
{
  need(!_a.ids.empty());
  tree<T> t{T{_a.ids[0]}};
  for (std::size_t i = 1; i < _a.ids.size(); ++i)
    t.push_back(T{_a.ids[i]});
  return t;
}
template <typename T>
void mark(tree<T> &_t)
{
  mark(_t.value());
  for (auto &c : _t)
    mark(c);
}
template <typename T>
void tree_add(slots_t &_s, tree<T> const &_t)
{
  _s.add(_t.value());
  for (auto const &c : _t)
    tree_add(_s, c);
}
template <typename T>
std::string tree_slots(tree<T> const &_t)
{
  slots_t s;
  tree_add(s, _t);
  return s.str();
}

template <typename T>
std::string op_tree(std::string const &_op, line_t const &L)
{
  if (_op == "treector")
  {
    need(L.args.size() == 1 && L.n(0) == 1 && L.par.empty());
    T x{L.args[0].ids[0]};
    mark(x);
    g_log.clear();
    tree<T> const r{with_cat<T::copyable>(L.cat(0), x, [](auto &&v) { return tree<T>{FWD(v)}; })};
    event_log const log{g_log};
    slots_t sx;
    sx.add(x);
    return finish("-", tree_slots(r), {sx.str()}, log);
  }
  if (_op == "treepushval" || _op == "treepushtree")
  {
    need(L.args.size() == 2 && L.cat(0) == 'i' && L.n(1) == 1 && L.par.empty());
    auto t{mk_tree<T>(L.args[0])};
    mark(t);
    if (_op == "treepushval")
    {
      T x{L.args[1].ids[0]};
      mark(x);
      g_log.clear();
      switch (L.cat(1))
      {
      case 'r':
        t.push_back(std::move(x));
        break;
      case 'l':
        if constexpr (T::copyable)
          t.push_back(x);
        else
          throw bad_op{};
        break;
      case 'c':
        if constexpr (T::copyable)
          t.push_back(std::as_const(x));
        else
          throw bad_op{};
        break;
      default:
        throw bad_op{};
      }
      event_log const log{g_log};
      slots_t sx;
      sx.add(x);
      return finish("-", "-", {tree_slots(t), sx.str()}, log);
    }
    need(L.cat(1) == 'r');
    tree<T> c{T{L.args[1].ids[0]}};
    mark(c);
    g_log.clear();
    t.push_back(std::move(c));
    event_log const log{g_log};
    return finish("-", "-", {tree_slots(t), tree_slots(c)}, log);
  }
  if (_op == "treerelease")
  {
    need(L.args.size() == 1 && L.cat(0) == 'i' && L.par.size() == 1 && L.par[0] >= 0 && static_cast<std::size_t>(L.par[0]) + 1 < L.n(0));
    auto t{mk_tree<T>(L.args[0])};
    mark(t);
    g_log.clear();
    tree<T> const r{t.release(std::next(t.begin(), L.par[0]))};
    event_log const log{g_log};
    return finish("-", tree_slots(r), {tree_slots(t)}, log);
  }
  if (_op == "treemap")
  {
    need(L.args.size() == 1 && L.par.empty());
    auto t{mk_tree<T>(L.args[0])};
    mark(t);
    g_log.clear();
    tree<T> const r{
        with_cat<true>(L.cat(0), t, [](auto &&x) { return fcppt::container::tree::map<tree<T>>(FWD(x), [](auto &&v) { return thru{}(FWD(v)); }); })};
    event_log const log{g_log};
    return finish("-", tree_slots(r), {tree_slots(t)}, log);
  }
  throw bad_op{};
}

// ---------------------------------------------------------------- tree: the remaining members. A tree is two arguments here:
// the value of the root and the children (a third child id becomes the child of the child before it: subtrees in pre-order)

template <typename T>
typename tree<T>::child_list mk_children(arg_t const &_a)
{
  typename tree<T>::child_list l;
  std::size_t const n{_a.ids.size()};
  for (std::size_t i = 0; i < n; ++i)
  {
    if (n >= 3 && i + 1 == n)
      l.back().push_back(T{_a.ids[i]});
    else
      l.emplace_back(T{_a.ids[i]});
  }
  return l;
}
template <typename T>
tree<T> mk_tree2(arg_t const &_root, arg_t const &_children)
{
  need(_root.ids.size() == 1);
  return tree<T>{T{_root.ids[0]}, mk_children<T>(_children)};
}
template <typename T>
void mark_deep(tree<T> &_t)
{
  c05::mark(_t.value());
  for (auto &c : _t)
    mark_deep(c);
}
template <typename T>
std::string root_slot(tree<T> const &_t)
{
  slots_t s;
  s.add(_t.value());
  return s.str();
}
template <typename T>
std::string children_slots(tree<T> const &_t)
{
  slots_t s;
  for (auto const &c : _t)
    tree_add(s, c);
  return s.str();
}
// the root, then the children the caller passed in (in order), then the children the operation added
template <typename T>
std::string tree_slots_canon(tree<T> const &_t)
{
  slots_t s;
  s.add(_t.value());
  for (auto const &c : _t)
    if (c.value().orig)
      tree_add(s, c);
  for (auto const &c : _t)
    if (!c.value().orig)
      tree_add(s, c);
  return s.str();
}

template <typename T>
std::string op_tree_more(std::string const &_op, line_t const &L)
{
  if (_op == "treectortree")
  {
    need(L.args.size() == 2 && L.cat(0) == L.cat(1) && L.par.empty());
    auto t{mk_tree2<T>(L.args[0], L.args[1])};
    mark_deep(t);
    g_log.clear();
    tree<T> const r{with_cat<T::copyable>(L.cat(0), t, [](auto &&x) { return tree<T>{FWD(x)}; })};
    event_log const log{g_log};
    return finish("-", tree_slots(r), {root_slot(t), children_slots(t)}, log);
  }
  if (_op == "treectorchildren")
  {
    need(L.args.size() == 2 && L.cat(0) == 'r' && L.cat(1) == 'r' && L.n(0) == 1 && L.par.empty());
    T v{L.args[0].ids[0]};
    c05::mark(v);
    auto cl{mk_children<T>(L.args[1])};
    for (auto &c : cl)
      mark_deep(c);
    g_log.clear();
    tree<T> const r{std::move(v), std::move(cl)};
    event_log const log{g_log};
    slots_t sv, sc;
    sv.add(v);
    for (auto const &c : cl)
      tree_add(sc, c);
    return finish("-", tree_slots(r), {sv.str(), sc.str()}, log);
  }
  if (_op == "treeassign")
  {
    need(L.args.size() == 4 && L.cat(0) == 'i' && L.cat(1) == 'i' && L.cat(2) == L.cat(3) && L.par.empty());
    auto t{mk_tree2<T>(L.args[0], L.args[1])};
    mark_deep(t);
    auto u{mk_tree2<T>(L.args[2], L.args[3])};
    mark_deep(u);
    g_log.clear();
    with_cat<T::copyable>(
        L.cat(2),
        u,
        [&t](auto &&x)
        {
          t = FWD(x);
          return 0;
        });
    event_log const log{g_log};
    return finish("-", "-", {root_slot(t), children_slots(t), root_slot(u), children_slots(u)}, log);
  }
  if (_op == "treeselfassign")
  {
    need(L.args.size() == 2 && L.cat(0) == 'i' && L.cat(1) == 'i' && L.par.size() == 1 && (L.par[0] == 0 || L.par[0] == 1));
    auto t{mk_tree2<T>(L.args[0], L.args[1])};
    mark_deep(t);
    tree<T> &alias{t};
    g_log.clear();
    if (L.par[0] == 1)
      t = std::move(alias);
    else if constexpr (T::copyable)
      t = alias;
    else
      throw bad_op{};
    event_log const log{g_log};
    return finish("-", "-", {root_slot(t), children_slots(t)}, log);
  }
  if (_op == "treesetvalue")
  {
    need(L.args.size() == 2 && L.cat(0) == 'i' && L.n(0) == 1 && L.n(1) == 1 && L.par.empty());
    tree<T> t{T{L.args[0].ids[0]}};
    mark_deep(t);
    T x{L.args[1].ids[0]};
    c05::mark(x);
    g_log.clear();
    with_cat<T::copyable>(
        L.cat(1),
        x,
        [&t](auto &&v)
        {
          t.value(FWD(v));
          return 0;
        });
    event_log const log{g_log};
    slots_t sx;
    sx.add(x);
    return finish("-", "-", {root_slot(t), sx.str()}, log);
  }
  if (_op == "treepushfrontval" || _op == "treeinsertval" || _op == "treepushfronttree" || _op == "treeinserttree")
  {
    bool const ins{_op == "treeinsertval" || _op == "treeinserttree"};
    need(L.args.size() == 2 && L.cat(0) == 'i' && L.n(1) == 1 && L.par.size() == (ins ? 1U : 0U));
    auto t{mk_tree<T>(L.args[0])};
    mark(t);
    auto const at{[&]
                  {
                    if (!ins)
                      return t.begin();
                    need(L.par[0] >= 0 && static_cast<std::size_t>(L.par[0]) < L.n(0));
                    return std::next(t.begin(), L.par[0]);
                  }};
    if (_op == "treepushfrontval" || _op == "treeinsertval")
    {
      T x{L.args[1].ids[0]};
      c05::mark(x);
      g_log.clear();
      with_cat<T::copyable>(
          L.cat(1),
          x,
          [&](auto &&v)
          {
            if (ins)
              t.insert(at(), FWD(v));
            else
              t.push_front(FWD(v));
            return 0;
          });
      event_log const log{g_log};
      slots_t sx;
      sx.add(x);
      return finish("-", "-", {tree_slots_canon(t), sx.str()}, log);
    }
    need(L.cat(1) == 'r');
    tree<T> c{T{L.args[1].ids[0]}};
    mark(c);
    g_log.clear();
    if (ins)
      t.insert(at(), std::move(c));
    else
      t.push_front(std::move(c));
    event_log const log{g_log};
    return finish("-", "-", {tree_slots_canon(t), tree_slots(c)}, log);
  }
  if (_op == "treepopback" || _op == "treepopfront")
  {
    need(L.args.size() == 1 && L.cat(0) == 'i' && L.par.empty());
    auto t{mk_tree<T>(L.args[0])};
    mark(t);
    g_log.clear();
    fcppt::optional::object<tree<T>> const r{_op == "treepopback" ? t.pop_back() : t.pop_front()};
    event_log const log{g_log};
    return finish(r.has_value() ? "J" : "N", r.has_value() ? tree_slots(r.get_unsafe()) : "-", {tree_slots(t)}, log);
  }
  if (_op == "treeswap")
  {
    // argument 0 = the two root values, 1 / 2 = the children of the first / second tree, 3 = nothing (the model's scratch list)
    need(L.args.size() == 4 && L.n(0) == 2 && L.n(3) == 0 && L.par.empty());
    for (std::size_t i = 0; i < 4; ++i)
      need(L.cat(i) == 'i');
    tree<T> t{T{L.args[0].ids[0]}, mk_children<T>(L.args[1])};
    tree<T> u{T{L.args[0].ids[1]}, mk_children<T>(L.args[2])};
    mark_deep(t);
    mark_deep(u);
    g_log.clear();
    t.swap(u);
    event_log const log{g_log};
    slots_t roots;
    roots.add(t.value());
    roots.add(u.value());
    return finish("-", "-", {roots.str(), children_slots(t), children_slots(u), "-"}, log);
  }
  if (_op == "treesortpred")
  {
    need(L.args.size() == 1 && L.cat(0) == 'i' && L.par.empty());
    auto t{mk_tree<T>(L.args[0])};
    mark(t);
    g_log.clear();
    t.sort(
        [](auto &&a, auto &&b)
        {
          cmp_note<decltype(a)>();
          cmp_note<decltype(b)>();
          return a.read() < b.read();
        });
    event_log const log{g_log};
    return finish("-", "-", {tree_slots(t)}, log);
  }
  if (_op == "treeerase" || _op == "treeeraserange" || _op == "treeclear" || _op == "treesort")
  {
    need(L.args.size() == 1 && L.cat(0) == 'i');
    auto t{mk_tree<T>(L.args[0])};
    mark(t);
    std::size_t const nc{L.n(0) - 1};
    g_log.clear();
    if (_op == "treeerase")
    {
      need(L.par.size() == 1 && L.par[0] >= 0 && static_cast<std::size_t>(L.par[0]) < nc);
      t.erase(std::next(t.begin(), L.par[0]));
    }
    else if (_op == "treeeraserange")
    {
      need(L.par.size() == 2 && L.par[0] >= 0 && L.par[0] <= L.par[1] && static_cast<std::size_t>(L.par[1]) <= nc);
      t.erase(std::next(t.begin(), L.par[0]), std::next(t.begin(), L.par[1]));
    }
    else if (_op == "treeclear")
    {
      need(L.par.empty());
      t.clear();
    }
    else
    {
      need(L.par.empty());
      t.sort();
    }
    event_log const log{g_log};
    return finish("-", "-", {tree_slots(t)}, log);
  }
  throw bad_op{};
}

template <typename T>
bool dispatch(std::string const &_op, line_t const &L, std::string &_out)
{
  if (_op == "treector" || _op == "treepushval" || _op == "treepushtree" || _op == "treerelease" || _op == "treemap")
    return (_out = op_tree<T>(_op, L), true);
  if (_op == "treectortree" || _op == "treectorchildren" || _op == "treeassign" || _op == "treeselfassign" || _op == "treesetvalue" ||
      _op == "treepushfrontval" || _op == "treeinsertval" || _op == "treepushfronttree" || _op == "treeinserttree" ||
      _op == "treepopback" || _op == "treepopfront" || _op == "treeerase" || _op == "treeeraserange" || _op == "treeclear" ||
      _op == "treesort" || _op == "treeswap" || _op == "treesortpred")
    return (_out = op_tree_more<T>(_op, L), true);
  return false;
}
}

C05_FAMILY(family_tree) { return C05_RUN(dispatch); }
}
