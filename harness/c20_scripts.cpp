// C20 correspondence harness, second translation unit: programs over several distribution / variate / uniform_container
// objects (XS, IS, RS, XU), two interleaved generators (G2), type_iso called directly (TI), seed_from_chrono (SC) and the
// std-only oracle lines of IS / RS / G2.  Line formats: lean/FcpptModel/Drv/C20.lean.
#include "c20_common.hpp"

namespace
{
// ---------------------------------------------------------------- scripts: several distributions / variates, one generator
// XS <T> <deco> <seed> <act>+                 exact pair (stateful mod_dist): every number is predicted by the model
// IS <T> <deco> <eng> <seed> <act>+           std::uniform_int_distribution, tapes on d / w / g
// RS <ur|no> <T> <deco> <eng> <seed> <act>+   uniform_real / normal
// acts: n:i:a:b  n2:i:a:b  mk:i:a:b  cc:i:j  ca:i:j  mc:i:j  ma:i:j  sw:i:j  d:i:n[:tape]  r:i  p:i:a:b  e:i:j  q:i
//       (d1 v1 vm1 vp1 g1: the same with the second generator)
//       v:k:i  vm:k:i  vp:k:a:b  vc:k:l  va:k:l  vx:k:l  vy:k:l  w:k:n[:tape]  g:n[:tape]
constexpr std::size_t dist_slots = 4U;
constexpr std::size_t var_slots = 3U;
constexpr unsigned second_seed_offset = 1000003U; // seed of the second generator = seed + this (in the engine's result_type)

std::size_t slot_index(std::string const &s, std::size_t const limit)
{
  if (s.empty() || s.size() > 2U || s.find_first_not_of("0123456789") != std::string::npos)
    throw bad_op{};
  std::size_t const r = std::stoul(s);
  if (r >= limit)
    throw bad_op{};
  return r;
}

std::size_t count_field(std::string const &s)
{
  if (s.empty() || s.size() > 6U || s.find_first_not_of("0123456789") != std::string::npos)
    throw bad_op{};
  std::size_t const r = std::stoul(s);
  if (r > 100000U)
    throw bad_op{};
  return r;
}

template <typename O>
auto &need(O &o)
{
  if (!o.has_value())
    throw bad_op{};
  return *o;
}

std::string underscored(std::string s)
{
  for (char &c : s)
    if (c == ' ')
      c = '_';
  return s;
}

template <typename K, typename R, typename FG, typename W>
std::string run_script(std::vector<std::string> const &t, std::size_t const seed_at)
{
  using P = typename K::template params<R, W>;
  using D = fcppt::random::distribution::basic<P>;
  using V = fcppt::random::variate<FG, D>;
  using sh = shape<R>;
  using B = typename sh::base;
  constexpr bool with_tape = !std::is_same_v<FG, fc_ctr>;
  // the member typedefs of the public interface
  static_assert(std::is_same_v<typename D::distribution_type, D> && std::is_same_v<typename D::param_type, P>);
  static_assert(std::is_same_v<typename D::result_type, R> && std::is_same_v<typename P::result_type, R>);
  static_assert(std::is_same_v<typename D::wrapped_distribution, typename P::distribution>);
  static_assert(std::is_same_v<typename P::wrapped_param_type, typename P::distribution::param_type>);
  static_assert(std::is_same_v<typename D::wrapped_distribution, typename K::template stddist<B>> || std::is_same_v<W, mod_wrapper>);
  static_assert(std::is_same_v<typename V::generator, FG> && std::is_same_v<typename V::distribution, D>);
  static_assert(std::is_same_v<typename V::result_type, R> && std::is_same_v<typename V::param_type, P>);
  static_assert(std::is_same_v<typename V::generator_reference, fcppt::reference<FG>>);
  static_assert(!std::is_copy_constructible_v<FG> && !std::is_move_constructible_v<FG> && !std::is_copy_assignable_v<FG>);
  static_assert(std::is_same_v<decltype(FG::min()), typename FG::result_type> && FG::min() < FG::max());
  if (t.size() < seed_at + 2U)
    throw bad_op{};
  auto const seed0{parse_base<typename FG::result_type>(t[seed_at])};
  // two generators of the same type: which one a variate refers to is observable
  FG gen{typename FG::seed{seed0}};
  FG gen1{typename FG::seed{static_cast<typename FG::result_type>(seed0 + second_seed_offset)}};
  std::array<std::optional<D>, dist_slots> ds;
  std::array<std::optional<V>, var_slots> vs;
  std::string out{"ok"};
  auto const params = [](std::string const &x, std::string const &y) {
    return K::template make<P>(sh::make(parse_base<B>(x)), sh::make(parse_base<B>(y)));
  };
  for (std::size_t at = seed_at + 1U; at < t.size(); ++at)
  {
    auto const f = split(t[at], ':');
    std::string const &name = f[0];
    auto const fields = [&f](std::size_t const n) {
      if (f.size() != n)
        throw bad_op{};
    };
    if (name == "n" || name == "n2" || name == "mk" || name == "p")
    {
      fields(4U);
      std::size_t const i{slot_index(f[1], dist_slots)};
      P const p{params(f[2], f[3])};
      if (name == "n")
        ds[i].emplace(p);
      else if (name == "n2")
        ds[i].emplace(K::template make2<D>(sh::make(parse_base<B>(f[2])), sh::make(parse_base<B>(f[3]))));
      else if (name == "mk")
        ds[i].emplace(fcppt::random::distribution::make_basic(p));
      else
        need(ds[i]).param(p);
    }
    else if (name == "cc" || name == "ca" || name == "mc" || name == "ma" || name == "sw" || name == "e")
    {
      fields(3U);
      std::size_t const i{slot_index(f[1], dist_slots)}, j{slot_index(f[2], dist_slots)};
      if (name == "cc")
      {
        if (i == j)
          throw bad_op{};
        D const &src{need(ds[j])};
        ds[i].emplace(src);
      }
      else if (name == "ca")
      {
        D const &src{need(ds[j])};
        need(ds[i]) = src; // i == j: self-assignment
      }
      else if (name == "mc")
      {
        if (i == j)
          throw bad_op{};
        ds[i].emplace(std::move(need(ds[j])));
      }
      else if (name == "ma")
      {
        if (i == j)
          throw bad_op{};
        need(ds[i]) = std::move(need(ds[j]));
      }
      else if (name == "sw")
      {
        using std::swap;
        swap(need(ds[i]), need(ds[j]));
      }
      else
      {
        D const &l{need(ds[i])}, &r{need(ds[j])};
        out += std::string{" e="} + (l == r ? "1" : "0") + (l != r ? "1" : "0");
      }
    }
    else if (name == "d" || name == "d1" || name == "w")
    {
      fields(with_tape ? 4U : 3U);
      bool const direct{name != "w"};
      std::size_t const i{slot_index(f[1], direct ? dist_slots : var_slots)};
      std::size_t const n{count_field(f[2])};
      std::vector<std::string> seq;
      // zero draws do not touch the object (it need not exist): same convention as the model
      if (n == 0U)
        ;
      else if (direct)
      {
        D &d{need(ds[i])};
        FG &g{name == "d" ? gen : gen1};
        for (std::size_t k = 0; k < n; ++k)
          seq.push_back(sh::print(d(g)));
      }
      else
      {
        V &v{need(vs[i])};
        for (std::size_t k = 0; k < n; ++k)
          seq.push_back(sh::print(v()));
      }
      out += " " + name + "=" + join_str(seq);
    }
    else if (name == "r" || name == "q")
    {
      fields(2U);
      std::size_t const i{slot_index(f[1], dist_slots)};
      if (name == "r")
        need(ds[i]).reset();
      else
      {
        D const &d{need(ds[i])};
        std::ostringstream os;
        os << d;
        std::string text;
        if constexpr (K::has_ends)
          text = underscored(os.str());
        else
        {
          // floating point: the text is libstdc++'s business; fcppt must print what the wrapped distribution prints
          std::ostringstream ref;
          ref << typename D::wrapped_distribution{d.distribution()};
          text = os.str() == ref.str() && !os.str().empty() ? "=" : "!";
        }
        out += " q=" + sh::print(d.min()) + "/" + sh::print(d.max()) + "/" + sh::inner(K::first(d.distribution())) + "/" +
               sh::inner(K::second(d.distribution())) + "/" + text;
      }
    }
    else if (name == "v" || name == "vm" || name == "v1" || name == "vm1")
    {
      fields(3U);
      std::size_t const k{slot_index(f[1], var_slots)}, i{slot_index(f[2], dist_slots)};
      D const &d{need(ds[i])};
      FG &g{name == "v" || name == "vm" ? gen : gen1};
      if (name == "v" || name == "v1")
        vs[k].emplace(fcppt::make_ref(g), d);
      else
        vs[k].emplace(fcppt::random::make_variate(fcppt::make_ref(g), d));
    }
    else if (name == "vp" || name == "vp1")
    {
      fields(4U);
      std::size_t const k{slot_index(f[1], var_slots)};
      P const p{params(f[2], f[3])};
      vs[k].emplace(fcppt::make_ref(name == "vp" ? gen : gen1), p);
    }
    else if (name == "vc" || name == "va" || name == "vx" || name == "vy")
    {
      fields(3U);
      std::size_t const k{slot_index(f[1], var_slots)}, l{slot_index(f[2], var_slots)};
      if (name != "va" && k == l)
        throw bad_op{};
      if (name == "vc")
      {
        V const &src{need(vs[l])};
        vs[k].emplace(src);
      }
      else if (name == "va")
      {
        V const &src{need(vs[l])};
        need(vs[k]) = src; // k == l: self-assignment
      }
      else if (name == "vx")
        vs[k].emplace(std::move(need(vs[l])));
      else
        need(vs[k]) = std::move(need(vs[l]));
    }
    else if (name == "g" || name == "g1")
    {
      fields(with_tape ? 3U : 2U);
      std::size_t const n{count_field(f[1])};
      FG &g{name == "g" ? gen : gen1};
      std::vector<std::string> seq;
      for (std::size_t k = 0; k < n; ++k)
        seq.push_back(std::to_string(g()));
      out += " " + name + "=" + join_str(seq);
    }
    else
      throw bad_op{};
  }
  return out;
}

// the same program against the bare standard distribution and engine: prints the tapes of the d / w / g actions
template <typename K, typename B, typename Eng>
std::string run_script_std(std::vector<std::string> const &t, std::size_t const seed_at)
{
  using SD = typename K::template stddist<B>;
  using SP = typename SD::param_type;
  if (t.size() < seed_at + 2U)
    throw bad_op{};
  auto const seed0{parse_base<typename Eng::result_type>(t[seed_at])};
  Eng eng{seed0};
  Eng eng1{static_cast<typename Eng::result_type>(seed0 + second_seed_offset)};
  std::array<std::optional<SD>, dist_slots> ds;
  std::array<std::optional<std::pair<SD, Eng *>>, var_slots> vs; // a "variate": a distribution and the engine it is used with
  std::string out{"T"};
  for (std::size_t at = seed_at + 1U; at < t.size(); ++at)
  {
    auto const f = split(t[at], ':');
    std::string const &name = f[0];
    auto const fields = [&f](std::size_t const n) {
      if (f.size() != n)
        throw bad_op{};
    };
    if (name == "n" || name == "n2" || name == "mk" || name == "p")
    {
      fields(4U);
      std::size_t const i{slot_index(f[1], dist_slots)};
      SP const p{parse_base<B>(f[2]), parse_base<B>(f[3])};
      if (name == "p")
        need(ds[i]).param(p);
      else
        ds[i].emplace(p);
    }
    else if (name == "cc" || name == "ca" || name == "mc" || name == "ma" || name == "sw" || name == "e")
    {
      fields(3U);
      std::size_t const i{slot_index(f[1], dist_slots)}, j{slot_index(f[2], dist_slots)};
      if (name == "cc" || name == "mc")
      {
        if (i == j)
          throw bad_op{};
        SD const copy{need(ds[j])};
        ds[i].emplace(copy);
      }
      else if (name == "ca" || name == "ma")
      {
        SD const copy{need(ds[j])};
        need(ds[i]) = copy;
      }
      else if (name == "sw")
      {
        SD const a{need(ds[i])}, b{need(ds[j])};
        *ds[i] = b;
        *ds[j] = a;
      }
      else
      {
        need(ds[i]);
        need(ds[j]);
      }
    }
    else if (name == "d" || name == "d1" || name == "w")
    {
      fields(3U);
      bool const direct{name != "w"};
      std::size_t const i{slot_index(f[1], direct ? dist_slots : var_slots)};
      std::size_t const n{count_field(f[2])};
      std::vector<std::string> seq;
      if (n != 0U)
      {
        SD &d{direct ? need(ds[i]) : need(vs[i]).first};
        Eng &e{direct ? (name == "d" ? eng : eng1) : *need(vs[i]).second};
        for (std::size_t k = 0; k < n; ++k)
          seq.push_back(shape<B>::inner(d(e)));
      }
      out += "|" + join_str(seq);
    }
    else if (name == "r" || name == "q")
    {
      fields(2U);
      std::size_t const i{slot_index(f[1], dist_slots)};
      if (name == "r")
        need(ds[i]).reset();
      else
        need(ds[i]);
    }
    else if (name == "v" || name == "vm" || name == "v1" || name == "vm1")
    {
      fields(3U);
      std::size_t const k{slot_index(f[1], var_slots)}, i{slot_index(f[2], dist_slots)};
      SD const copy{need(ds[i])};
      vs[k].emplace(copy, name == "v" || name == "vm" ? &eng : &eng1);
    }
    else if (name == "vp" || name == "vp1")
    {
      fields(4U);
      std::size_t const k{slot_index(f[1], var_slots)};
      vs[k].emplace(SD{SP{parse_base<B>(f[2]), parse_base<B>(f[3])}}, name == "vp" ? &eng : &eng1);
    }
    else if (name == "vc" || name == "va" || name == "vx" || name == "vy")
    {
      fields(3U);
      std::size_t const k{slot_index(f[1], var_slots)}, l{slot_index(f[2], var_slots)};
      if (name != "va" && k == l)
        throw bad_op{};
      std::pair<SD, Eng *> const copy{need(vs[l])};
      if (name == "vc" || name == "vx")
        vs[k].emplace(copy);
      else
        need(vs[k]) = copy;
    }
    else if (name == "g" || name == "g1")
    {
      fields(2U);
      std::size_t const n{count_field(f[1])};
      Eng &e{name == "g" ? eng : eng1};
      std::vector<std::string> seq;
      for (std::size_t k = 0; k < n; ++k)
        seq.push_back(std::to_string(e()));
      out += "|" + join_str(seq);
    }
    else
      throw bad_op{};
  }
  return out;
}

// result type from the textual codes (T in s,i,l,f,d; deco in p,s,ss,e1..e9,se3), handed to f as tag<R>
template <typename T, typename F>
std::string with_result_type_of(std::string const &deco, F const &f)
{
  if (deco == "p")
    return f(tag<T>{});
  if (deco == "s")
    return f(tag<typename st<T>::one>{});
  if (deco == "ss")
    return f(tag<typename st<T>::two>{});
  throw bad_op{};
}

template <typename F>
std::string with_int_result_type(std::string const &ty, std::string const &deco, F const &f)
{
  if (deco.size() == 2U && deco[0] == 'e')
  {
    if (ty != "i")
      throw bad_op{};
    return with_enum(static_cast<unsigned>(std::stoul(deco.substr(1))), f);
  }
  if (deco == "se3")
  {
    if (ty != "i")
      throw bad_op{};
    return f(tag<strong_e3>{});
  }
  if (ty == "s")
    return with_result_type_of<short>(deco, f);
  if (ty == "i")
    return with_result_type_of<int>(deco, f);
  if (ty == "l")
    return with_result_type_of<long>(deco, f);
  throw bad_op{};
}

std::string op_XS(std::vector<std::string> const &t)
{
  if (t.size() < 5U)
    throw bad_op{};
  if (t[2] == "e5" && t[1] == "i")
    return run_script<k_int, e5, fc_ctr, mod_wrapper>(t, 3U);
  auto const go = [&t]<typename T>(tag<T>) {
    return with_result_type_of<T>(t[2], [&t]<typename R>(tag<R>) { return run_script<k_int, R, fc_ctr, mod_wrapper>(t, 3U); });
  };
  if (t[1] == "s")
    return go(tag<short>{});
  if (t[1] == "i")
    return go(tag<int>{});
  if (t[1] == "l")
    return go(tag<long>{});
  throw bad_op{};
}

std::string op_IS(std::vector<std::string> const &t)
{
  if (t.size() < 6U)
    throw bad_op{};
  auto const eng = [&t]<typename R>(tag<R>) {
    if (t[3] == "minstd")
      return run_script<k_int, R, fc_minstd, uiw>(t, 4U);
    if (t[3] == "mt")
      return run_script<k_int, R, fc_mt, uiw>(t, 4U);
    throw bad_op{};
  };
  std::string const code{t[1] + t[2]};
  if (code == "sp")
    return eng(tag<short>{});
  if (code == "ss")
    return eng(tag<st<short>::one>{});
  if (code == "ip")
    return eng(tag<int>{});
  if (code == "iss")
    return eng(tag<st<int>::two>{});
  if (code == "lp")
    return eng(tag<long>{});
  if (code == "ls")
    return eng(tag<st<long>::one>{});
  if (code == "ie3")
    return eng(tag<e3>{});
  if (code == "ise3")
    return eng(tag<strong_e3>{});
  throw bad_op{};
}

template <typename K, typename T>
std::string script_real(std::vector<std::string> const &t)
{
  return with_result_type_of<T>(t[3], [&t]<typename R>(tag<R>) {
    if (t[4] == "minstd")
      return run_script<K, R, fc_minstd, no_wrapper>(t, 5U);
    if (t[4] == "mt")
      return run_script<K, R, fc_mt, no_wrapper>(t, 5U);
    throw bad_op{};
  });
}

std::string op_RS(std::vector<std::string> const &t)
{
  if (t.size() < 7U || (t[3] != "p" && t[3] != "s"))
    throw bad_op{};
  if (t[1] == "ur" && t[2] == "f")
    return script_real<k_real, float>(t);
  if (t[1] == "ur" && t[2] == "d")
    return script_real<k_real, double>(t);
  if (t[1] == "no" && t[2] == "f")
    return script_real<k_normal, float>(t);
  if (t[1] == "no" && t[2] == "d")
    return script_real<k_normal, double>(t);
  throw bad_op{};
}

// ---------------------------------------------------------------- container scripts
// XU <c|m> <seed> <elems|-> <act>+    acts: f:i  k:i:lo:hi  cc:i:j  ca:i:j  mc:i:j  ma:i:j  d:i:n  w:pos:x  t:i:x  g:n
template <typename Cont>
std::string run_cscript(std::vector<std::string> const &t)
{
  using plain = std::remove_const_t<Cont>;
  using U = fcppt::random::wrapper::uniform_container<Cont, mod_wrapper>;
  using P = typename U::param_type;
  using size_type = typename plain::size_type;
  static_assert(std::is_same_v<typename U::container_reference, fcppt::reference<Cont>>);
  static_assert(std::is_same_v<typename U::result_type, std::conditional_t<std::is_const_v<Cont>, int const &, int &>>);
  static_assert(std::is_same_v<P, fcppt::random::distribution::parameters::uniform_int<size_type, mod_wrapper>>);
  constexpr std::size_t slots = 3U;
  plain storage;
  for (long long const e : vh::int_list(t[3]))
    storage.push_back(static_cast<typename plain::value_type>(e));
  Cont &c{storage};
  fc_ctr gen{fc_ctr::seed{parse_base<fc_ctr::result_type>(t[2])}};
  std::array<std::optional<U>, slots> us;
  std::string out{"ok"};
  for (std::size_t at = 4U; at < t.size(); ++at)
  {
    auto const f = split(t[at], ':');
    std::string const &name = f[0];
    auto const fields = [&f](std::size_t const n) {
      if (f.size() != n)
        throw bad_op{};
    };
    if (name == "f")
    {
      fields(2U);
      std::size_t const i{slot_index(f[1], slots)};
      auto const made{fcppt::random::wrapper::make_uniform_container_advanced<mod_wrapper>(fcppt::reference<Cont>{c})};
      if (made.has_value())
      {
        us[i].emplace(made.get_unsafe());
        out += " f=some";
      }
      else
      {
        us[i].reset();
        out += " f=none";
      }
    }
    else if (name == "k")
    {
      fields(4U);
      std::size_t const i{slot_index(f[1], slots)};
      us[i].emplace(
          fcppt::reference<Cont>{c},
          P{typename P::min{parse_base<size_type>(f[2])}, typename P::max{parse_base<size_type>(f[3])}});
    }
    else if (name == "cc" || name == "ca" || name == "mc" || name == "ma")
    {
      fields(3U);
      std::size_t const i{slot_index(f[1], slots)}, j{slot_index(f[2], slots)};
      if (name != "ca" && i == j)
        throw bad_op{};
      if (name == "cc")
      {
        U const &src{need(us[j])};
        us[i].emplace(src);
      }
      else if (name == "ca")
      {
        U const &src{need(us[j])};
        need(us[i]) = src; // i == j: self-assignment
      }
      else if (name == "mc")
        us[i].emplace(std::move(need(us[j])));
      else
        need(us[i]) = std::move(need(us[j]));
    }
    else if (name == "d")
    {
      fields(3U);
      std::size_t const i{slot_index(f[1], slots)};
      std::size_t const n{count_field(f[2])};
      std::vector<std::string> seq;
      for (std::size_t k = 0; k < n; ++k)
      {
        auto &r{need(us[i])(gen)};
        seq.push_back(std::to_string(r) + "@" + std::to_string(index_of(storage, r)));
      }
      out += " d=" + join_str(seq);
    }
    else if (name == "w")
    {
      fields(3U);
      std::size_t const pos{count_field(f[1])};
      if (pos >= storage.size())
        throw bad_op{};
      storage[pos] = parse_base<typename plain::value_type>(f[2]);
    }
    else if (name == "g")
    {
      fields(2U);
      std::size_t const n{count_field(f[1])};
      std::vector<std::string> seq;
      for (std::size_t k = 0; k < n; ++k)
        seq.push_back(std::to_string(gen()));
      out += " g=" + join_str(seq);
    }
    else if (name == "t")
    {
      fields(3U);
      if constexpr (std::is_const_v<Cont>)
        throw bad_op{};
      else
      {
        std::size_t const i{slot_index(f[1], slots)};
        auto &r{need(us[i])(gen)};
        out += " t=" + std::to_string(index_of(storage, r));
        r = parse_base<typename plain::value_type>(f[2]);
      }
    }
    else
      throw bad_op{};
  }
  return out + " st=" + vh::join(storage);
}

std::string op_XU(std::vector<std::string> const &t)
{
  if (t.size() < 5U)
    throw bad_op{};
  if (t[1] == "c")
    return run_cscript<std::vector<int> const>(t);
  if (t[1] == "m")
    return run_cscript<std::vector<int>>(t);
  throw bad_op{};
}

// ---------------------------------------------------------------- two generators of one type, interleaved
// G2 <eng> <seed0> <seed1> <pattern> [<tape>]    pattern: <g>*<n>,<g>*<n>,...
template <typename G0>
std::string run_two(std::vector<std::string> const &t, bool const fc, auto const &make)
{
  auto g0{make(t[2])};
  auto g1{make(t[3])};
  std::vector<std::string> seq;
  for (std::string const &part : split(t[4], ','))
  {
    auto const f = split(part, '*');
    if (f.size() != 2U || (f[0] != "0" && f[0] != "1"))
      throw bad_op{};
    std::size_t const n{count_field(f[1])};
    for (std::size_t k = 0; k < n; ++k)
      seq.push_back(std::to_string(f[0] == "0" ? (*g0)() : (*g1)()));
  }
  return (fc ? "seq=" : "") + join_str(seq);
}

std::string op_G2(std::vector<std::string> const &t, bool const fc)
{
  if (t.size() != (fc ? 6U : 5U))
    throw bad_op{};
  auto const fcgen = [&t, fc]<typename FG>(tag<FG>) {
    return run_two<FG>(t, fc, [](std::string const &s) {
      return std::make_unique<FG>(typename FG::seed{parse_base<typename FG::result_type>(s)});
    });
  };
  auto const stdgen = [&t, fc]<typename E>(tag<E>) {
    return run_two<E>(t, fc, [](std::string const &s) { return std::make_unique<E>(parse_base<typename E::result_type>(s)); });
  };
  if (t[1] == "minstd")
    return fc ? fcgen(tag<fc_minstd>{}) : stdgen(tag<std::minstd_rand>{});
  if (t[1] == "mt")
    return fc ? fcgen(tag<fc_mt>{}) : stdgen(tag<std::mt19937>{});
  if (t[1] == "ctr" && fc)
    return fcgen(tag<fc_ctr>{});
  throw bad_op{};
}

// ---------------------------------------------------------------- type_iso and the value helpers, called directly
// TI <T> <deco> <x>
std::string op_TI(std::vector<std::string> const &t)
{
  if (t.size() != 4U)
    throw bad_op{};
  return with_int_result_type(t[1], t[2], [&t]<typename R>(tag<R>) {
    using sh = shape<R>;
    using B = typename sh::base;
    static_assert(std::is_same_v<fcppt::random::distribution::base_type<R>, B>);
    static_assert(std::is_same_v<fcppt::type_iso::undecorated_type<R>, B>);
    B const x{parse_base<B>(t[3])};
    if constexpr (std::is_enum_v<R>)
      if (x < 0 || x > static_cast<B>(R::fcppt_maximum))
        throw bad_op{};
    if constexpr (std::is_same_v<R, strong_e3>)
      if (x < 0 || x > 2)
        throw bad_op{};
    R const made{sh::make(x)};
    return "dec=" + sh::print(fcppt::type_iso::decorate<R>(x)) + " dv=" +
           sh::print(fcppt::random::distribution::decorated_value<R>(x)) + " und=" +
           sh::inner(fcppt::type_iso::undecorate(made)) + " bv=" + sh::inner(fcppt::random::distribution::base_value(made));
  });
}

// SC <eng>: seed_from_chrono produces a seed of the generator's seed type; the generator seeded with it is the
// standard engine seeded with the value inside
template <typename FG, typename Eng>
std::string run_chrono()
{
  auto const s{fcppt::random::generator::seed_from_chrono<typename FG::seed>()};
  static_assert(std::is_same_v<decltype(s), typename FG::seed const>);
  FG g{s};
  Eng e{s.get()};
  bool same{true};
  for (int k = 0; k < 16; ++k)
    same = (g() == e()) && same;
  return std::string{"same="} + (same ? "1" : "0");
}

std::string op_SC(std::vector<std::string> const &t)
{
  if (t.size() != 2U)
    throw bad_op{};
  if (t[1] == "minstd")
    return run_chrono<fc_minstd, std::minstd_rand>();
  if (t[1] == "mt")
    return run_chrono<fc_mt, std::mt19937>();
  if (t[1] == "ctr")
    return run_chrono<fc_ctr, ctr_engine>();
  throw bad_op{};
}
}

std::string c20_scripts(std::vector<std::string> const &t)
{
  if (t[0] == "XS")
    return op_XS(t);
  if (t[0] == "IS")
    return op_IS(t);
  if (t[0] == "RS")
    return op_RS(t);
  if (t[0] == "XU")
    return op_XU(t);
  if (t[0] == "G2")
    return op_G2(t, true);
  if (t[0] == "TI")
    return op_TI(t);
  if (t[0] == "SC")
    return op_SC(t);
  if (t[0] != "std" || t.size() < 2U)
    throw bad_op{};
  if (t[1] == "G2")
    return op_G2(std::vector<std::string>(t.begin() + 1, t.end()), false);
  if (t[1] == "IS")
  {
    // std IS <T> <eng> <seed> <act>+
    if (t.size() < 6U)
      throw bad_op{};
    auto const eng = [&t]<typename B>(tag<B>) {
      if (t[3] == "minstd")
        return run_script_std<k_int, B, std::minstd_rand>(t, 4U);
      if (t[3] == "mt")
        return run_script_std<k_int, B, std::mt19937>(t, 4U);
      throw bad_op{};
    };
    if (t[2] == "s")
      return eng(tag<short>{});
    if (t[2] == "i")
      return eng(tag<int>{});
    if (t[2] == "l")
      return eng(tag<long>{});
    throw bad_op{};
  }
  if (t[1] == "RS")
  {
    // std RS <kind> <T> <eng> <seed> <act>+
    if (t.size() < 7U)
      throw bad_op{};
    auto const eng = [&t]<typename K, typename B>(tag<K>, tag<B>) {
      if (t[4] == "minstd")
        return run_script_std<K, B, std::minstd_rand>(t, 5U);
      if (t[4] == "mt")
        return run_script_std<K, B, std::mt19937>(t, 5U);
      throw bad_op{};
    };
    if (t[2] == "ur" && t[3] == "f")
      return eng(tag<k_real>{}, tag<float>{});
    if (t[2] == "ur" && t[3] == "d")
      return eng(tag<k_real>{}, tag<double>{});
    if (t[2] == "no" && t[3] == "f")
      return eng(tag<k_normal>{}, tag<float>{});
    if (t[2] == "no" && t[3] == "d")
      return eng(tag<k_normal>{}, tag<double>{});
    throw bad_op{};
  }
  throw bad_op{};
}
