// C16 correspondence harness, part a of the per-function evaluation (see c16_common.hpp)
#include "c16_common.hpp"

c16::result c16::eval_a(std::string const &fn, char const k, params const &ps, std::vector<int> const &v)
{
  C16_PREAMBLE
  if (fn == "map" && np == 2)
  {
    ulong const t = ps[0], F = ps[1];
    if (!(ro || k == 'a' || k == 'p') || t > 4 || F >= 27 || ((k == 'a' || k == 'p') && t != 0 && t != 4)) return bad;
    auto const show = [](auto const &r, seq const &log) {
      if constexpr (std::is_same_v<std::remove_cvref_t<decltype(r)>, rc>) return ds(r) + "|" + ds(log) + "|" + r.cap();
      else return ds(r) + "|" + ds(log);
    };
    auto const with_t = [&](auto const &f) {
      if (t == 4) return f(rc{});
      return with_target(t, f);
    };
    if (k == 'a')
      return with_size<6>(v.size(), [&](auto n) {
        auto const src{mk_array<SZ(n)>(v, 0)};
        auto const go = [&](auto target) {
          seq log;
          auto const r{alg::map<decltype(target)>(src, [&](int const e) { log.push_back(e); return tbl_f(F, e); })};
          return show(r, log);
        };
        return t == 4 ? go(rc{}) : go(std::vector<int>{});
      });
    if (k == 'p')
      return with_mpl(v, [&](auto list) {
        auto const go = [&](auto target) {
          seq log;
          auto const r{alg::map<decltype(target)>(list, [&](auto const tag) { log.push_back(val(tag)); return tbl_f(F, val(tag)); })};
          return show(r, log);
        };
        return t == 4 ? go(rc{}) : go(std::vector<int>{});
      });
    return with_ro(k, v, [&](auto const &c) {
      return with_t([&](auto target) {
        using target_type = decltype(target);
        seq log;
        auto const r{alg::map<target_type>(c, [&](auto const &e) { log.push_back(val(e)); return tbl_f(F, val(e)); })};
        return show(r, log);
      });
    });
  }
  return std::nullopt;
}
