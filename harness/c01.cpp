// C01 harness: every registered "safe" function is called on the operation's arguments under
// ASan + UBSan + _GLIBCXX_ASSERTIONS, inside catch(...) (an escaping exception is printed by kind) and the
// per-line watchdog of vh::run (TIMEOUT).  String views are backed by exact-size heap buffers, so a read at
// end() is a redzone hit.  Scalar operations (call/range1/...) are the C06 tables.
#define VERIF_NO_MAIN
#include "c06.cpp"

#include <fcppt/array/from_range.hpp>
#include <fcppt/array/object.hpp>
#include <fcppt/cast/dynamic.hpp>
#include <fcppt/container/at_optional.hpp>
#include <fcppt/container/find_opt.hpp>
#include <fcppt/container/maybe_back.hpp>
#include <fcppt/container/maybe_front.hpp>
#include <fcppt/container/pop_back.hpp>
#include <fcppt/container/pop_front.hpp>
#include <fcppt/enum/from_string.hpp>
#include <fcppt/enum/to_string_impl_fwd.hpp>
#include <fcppt/extract_from_string.hpp>
#include <fcppt/filesystem/file_size.hpp>
#include <fcppt/filesystem/remove_extension.hpp>
#include <fcppt/io/read_chars.hpp>
#include <fcppt/io/stream_to_string.hpp>
#include <fcppt/options/option_name.hpp>
#include <fcppt/options/option_name_set.hpp>
#include <fcppt/options/impl/is_flag.hpp>
#include <fcppt/options/impl/next_arg.hpp>
#include <fcppt/runtime_index.hpp>
#include <fcppt/args_vector.hpp>

#include <sys/stat.h>
#include <sys/types.h>
#include <cstdio>
#include <cstring>
#include <deque>
#include <filesystem>
#include <fstream>
#include <map>
#include <memory>
#include <sstream>
#include <string_view>

namespace c01
{
enum class color { foo, bar, baz, fo, foobar, fcppt_maximum = foobar };
}

namespace fcppt::enum_
{
template <>
struct to_string_impl<c01::color>
{
  static std::string_view get(c01::color const c)
  {
    switch (c)
    {
    case c01::color::foo: return "foo";
    case c01::color::bar: return "bar";
    case c01::color::baz: return "baz";
    case c01::color::fo: return "fo";
    case c01::color::foobar: return "foobar";
    }
    return "";
  }
};
}

namespace c01
{
struct base { virtual ~base() = default; };
struct d1 : base {};
struct d2 : base {};

std::vector<long long> ints(std::string const &s) { return vh::int_list(s); }

std::string payload(std::string const &tok) // "s:chars"
{
  return tok.substr(2);
}

// exact-size heap copy: no terminating zero, ASan redzone right behind the last character
struct exact
{
  std::unique_ptr<char[]> mem;
  std::size_t n;
  explicit exact(std::string const &s) : mem(new char[s.size() == 0 ? 1 : s.size()]), n(s.size())
  {
    std::memcpy(mem.get(), s.data(), s.size());
  }
  std::string_view view() const { return s_view(); }
  std::string_view s_view() const { return n == 0 ? std::string_view{mem.get() + 1, 0} : std::string_view{mem.get(), n}; }
};

template <typename T>
std::string opt(fcppt::optional::object<T> const &o)
{
  return o.has_value() ? "some " + std::to_string(o.get_unsafe()) : std::string{"none"};
}

template <typename T>
std::string optref(fcppt::optional::reference<T> const &o)
{
  return o.has_value() ? "some " + std::to_string(o.get_unsafe().get()) : std::string{"none"};
}

std::vector<std::string> split(std::string const &s, char sep)
{
  std::vector<std::string> r;
  if (s == "_")
    return r;
  std::size_t pos = 0;
  while (true)
  {
    std::size_t const next = s.find(sep, pos);
    r.push_back(s.substr(pos, next == std::string::npos ? next : next - pos));
    if (next == std::string::npos)
      break;
    pos = next + 1;
  }
  return r;
}

std::filesystem::path scratch;

void make_scratch()
{
  char tmpl[] = "/tmp/verif_c01_XXXXXX";
  char *d = mkdtemp(tmpl);
  scratch = d ? d : "/tmp";
  { std::ofstream f(scratch / "file0"); }
  { std::ofstream f(scratch / "file5"); f << "12345"; }
  { std::ofstream f(scratch / "file4096"); f << std::string(4096, 'x'); }
  std::filesystem::create_directory(scratch / "dir");
  std::error_code ec;
  std::filesystem::create_symlink(scratch / "nowhere", scratch / "dangling", ec);
  std::filesystem::create_symlink(scratch / "file5", scratch / "symfile", ec);
  // paths on which stat() itself fails with something other than "not found"
  std::filesystem::create_symlink(scratch / "selfloop", scratch / "selfloop", ec);            // ELOOP
  std::filesystem::create_symlink(scratch / "loopb", scratch / "loopa", ec);                  // ELOOP through a cycle of two
  std::filesystem::create_symlink(scratch / "loopa", scratch / "loopb", ec);
  std::filesystem::create_directory_symlink(scratch / "dir", scratch / "symdir", ec);         // a link to a directory
  std::filesystem::create_symlink(scratch / "symfile", scratch / "symsym", ec);               // link -> link -> file5
  (void)::mkfifo((scratch / "fifo").c_str(), 0600);                                           // exists, not a regular file
}

void remove_scratch()
{
  std::error_code ec;
  if (scratch != "/tmp" && !scratch.empty())
    std::filesystem::remove_all(scratch, ec);
}

std::string handle1(std::vector<std::string> const &t)
{
  std::string const &op = t[0];
  if (op == "atopt" && t.size() == 3)
  {
    auto const v0 = ints(t[1]);
    std::vector<long long> v(v0.begin(), v0.end());
    std::deque<long long> d(v0.begin(), v0.end());
    auto const i = static_cast<std::size_t>(vh::to_ull(t[2]));
    std::string const r1 = optref(fcppt::container::at_optional(v, i));
    std::string const r2 = optref(fcppt::container::at_optional(d, i));
    std::vector<long long> const &cv = v;
    std::string const r3 = optref(fcppt::container::at_optional(cv, i));
    return r1 == r2 && r1 == r3 ? r1 : "containers-disagree " + r1 + " / " + r2 + " / " + r3;
  }
  if ((op == "front" || op == "back") && t.size() == 2)
  {
    auto const v0 = ints(t[1]);
    std::vector<long long> v(v0.begin(), v0.end());
    std::deque<long long> d(v0.begin(), v0.end());
    std::string const r1 = optref(op == "front" ? fcppt::container::maybe_front(v) : fcppt::container::maybe_back(v));
    std::string const r2 = optref(op == "front" ? fcppt::container::maybe_front(d) : fcppt::container::maybe_back(d));
    return r1 == r2 ? r1 : "containers-disagree";
  }
  if (op == "popback" && t.size() == 2)
  {
    auto const v0 = ints(t[1]);
    std::vector<long long> v(v0.begin(), v0.end());
    std::deque<long long> d(v0.begin(), v0.end());
    std::string const p1 = opt(fcppt::container::pop_back(v));
    std::string const r1 = p1 + " rest=" + vh::join(v);
    std::string const p2 = opt(fcppt::container::pop_back(d));
    std::string const r2 = p2 + " rest=" + vh::join(d);
    return r1 == r2 ? r1 : "containers-disagree";
  }
  if (op == "popfront" && t.size() == 2)
  {
    auto const v0 = ints(t[1]);
    std::deque<long long> d(v0.begin(), v0.end());
    std::string const p1 = opt(fcppt::container::pop_front(d));
    return p1 + " rest=" + vh::join(d);
  }
  if (op == "findopt" && t.size() == 3)
  {
    std::map<long long, long long> m;
    for (auto const &kv : split(t[1], ','))
    {
      auto const c = kv.find(':');
      m.emplace(std::stoll(kv.substr(0, c)), std::stoll(kv.substr(c + 1))); // first occurrence wins, like the model
    }
    auto const r = fcppt::container::find_opt(m, std::stoll(t[2]));
    return r.has_value() ? "some " + std::to_string(r.get_unsafe().get().second) : std::string{"none"};
  }
  if (op == "fromrange" && t.size() == 3)
  {
    auto const v0 = ints(t[2]);
    std::vector<long long> const v(v0.begin(), v0.end());
    auto show = [](auto const &o) {
      if (!o.has_value())
        return std::string{"none"};
      std::vector<long long> out;
      for (auto const &e : o.get_unsafe())
        out.push_back(e);
      return "some " + vh::join(out);
    };
    switch (vh::to_ull(t[1]))
    {
    case 0: return show(fcppt::array::from_range<0>(v));
    case 1: return show(fcppt::array::from_range<1>(v));
    case 2: return show(fcppt::array::from_range<2>(v));
    case 3: return show(fcppt::array::from_range<3>(v));
    case 4: return show(fcppt::array::from_range<4>(v));
    default: return "bad-op";
    }
  }
  if (op == "rtindex" && t.size() == 3)
  {
    auto const i = static_cast<unsigned>(vh::to_ull(t[2]));
    auto run = [i]<unsigned Max>(std::integral_constant<unsigned, Max>) {
      return fcppt::runtime_index<std::integral_constant<unsigned, Max>>(
          i, [](auto const idx) { return "f " + std::to_string(decltype(idx)::value); }, [] { return std::string{"fail"}; });
    };
    switch (vh::to_ull(t[1]))
    {
    case 0: return run(std::integral_constant<unsigned, 0>{});
    case 1: return run(std::integral_constant<unsigned, 1>{});
    case 2: return run(std::integral_constant<unsigned, 2>{});
    case 3: return run(std::integral_constant<unsigned, 3>{});
    case 5: return run(std::integral_constant<unsigned, 5>{});
    default: return "bad-op";
    }
  }
  if (op == "enumfs" && t.size() == 2)
  {
    exact const e{payload(t[1])};
    auto const r = fcppt::enum_::from_string<color>(e.view());
    return r.has_value() ? "some " + std::to_string(static_cast<int>(r.get_unsafe())) : std::string{"none"};
  }
  if (op == "isflag" && t.size() == 2)
  {
    exact const e{payload(t[1])};
    auto const r = fcppt::options::impl::is_flag(e.view());
    if (!r.has_value())
      return "none";
    return std::string{r.get_unsafe().first.get() ? "short" : "long"} + " s:" + r.get_unsafe().second;
  }
  if (op == "nextarg" && t.size() == 3)
  {
    fcppt::args_vector const args{[&] {
      fcppt::args_vector a;
      for (auto const &s : split(t[1], ','))
        a.push_back(s);
      a.shrink_to_fit();
      return a;
    }()};
    fcppt::options::option_name_set names;
    for (auto const &n : split(t[2], ','))
    {
      auto const c = n.rfind(':');
      names.insert(fcppt::options::option_name{
          fcppt::string{n.substr(0, c)}, fcppt::options::option_name::is_short{n.substr(c + 1) == "s"}});
    }
    auto const r = fcppt::options::impl::next_arg(args, names);
    return r.has_value() ? "some " + std::to_string(r.get_unsafe() - args.begin()) : std::string{"none"};
  }
  if (op == "readchars" && t.size() == 3)
  {
    std::istringstream in{payload(t[1])};
    auto const r = fcppt::io::read_chars(in, static_cast<std::size_t>(vh::to_ull(t[2])));
    if (!r.has_value())
      return "none";
    return "some s:" + std::string(r.get_unsafe().begin(), r.get_unsafe().end());
  }
  if (op == "streamtostring" && t.size() == 2)
  {
    std::istringstream in{payload(t[1])};
    auto const r = fcppt::io::stream_to_string(in);
    return r.has_value() ? "some s:" + r.get_unsafe() : std::string{"none"};
  }
  if (op == "filesize" && t.size() == 2)
  {
    std::filesystem::path const p =
        t[1] == "emptypath" ? std::filesystem::path{}
        : t[1] == "dot"     ? std::filesystem::path{"."}
        : t[1] == "longname" ? scratch / std::string(300, 'n')                 // ENAMETOOLONG
        : t[1] == "underfile" ? scratch / "file5" / "x"                         // ENOTDIR
        : t[1] == "underloop" ? scratch / "selfloop" / "x"                      // ELOOP in a parent component
        : t[1] == "longpath" ? scratch / std::string(5000, 'p')                 // longer than PATH_MAX
                             : scratch / t[1];
    auto const r = fcppt::filesystem::file_size(p);
    return r.has_value() ? "some " + std::to_string(r.get_unsafe()) : std::string{"none"};
  }
  if (op == "rmext" && t.size() == 2)
  {
    std::filesystem::path const r = fcppt::filesystem::remove_extension(std::filesystem::path{payload(t[1])});
    (void)r;
    return "ok";
  }
  if (op == "extract" && t.size() == 3)
  {
    std::string const s = payload(t[2]);
    if (t[1] == "int") (void)fcppt::extract_from_string<int>(s);
    else if (t[1] == "uint") (void)fcppt::extract_from_string<unsigned>(s);
    else if (t[1] == "short") (void)fcppt::extract_from_string<short>(s);
    else if (t[1] == "ulong") (void)fcppt::extract_from_string<unsigned long>(s);
    else if (t[1] == "string") (void)fcppt::extract_from_string<std::string>(s);
    else return "bad-op";
    return "ok";
  }
  if (op == "dyncast" && t.size() == 2)
  {
    d1 a;
    d2 b;
    base c;
    base &ref = t[1] == "d1" ? static_cast<base &>(a) : t[1] == "d2" ? static_cast<base &>(b) : c;
    return fcppt::cast::dynamic<d1>(ref).has_value() ? "some" : "none";
  }
  return handle(t); // scalar tables of C06
}

std::string guarded(std::vector<std::string> const &t)
{
  if (t.empty())
    return "bad-op";
  try
  {
    return handle1(t);
  }
  catch (std::filesystem::filesystem_error const &)
  {
    return "exc:filesystem_error";
  }
  catch (std::ios_base::failure const &)
  {
    return "exc:ios_failure";
  }
  catch (std::bad_alloc const &)
  {
    return "exc:bad_alloc";
  }
  catch (std::exception const &)
  {
    return "exc:std";
  }
  catch (...)
  {
    return "exc:unknown";
  }
}
}

int main()
{
  init();
  c01::make_scratch();
  vh::op_budget() = 60;
  int const rc = vh::run(c01::guarded);
  c01::remove_scratch();
  return rc;
}
