// C01 harness: every registered "safe" function is called on the operation's arguments under
// ASan + UBSan + _GLIBCXX_ASSERTIONS, inside catch(...) (an escaping exception is printed by kind) and the
// per-line watchdog of vh::run (TIMEOUT).  String views are backed by exact-size heap buffers, so a read at
// end() is a redzone hit.  Scalar operations (call/range1/...) are the C06 tables.
#define VERIF_NO_MAIN
#include "c06.cpp"

#include <fcppt/array/from_range.hpp>
#include <fcppt/array/object.hpp>
#include <fcppt/cast/dynamic.hpp>
#include <fcppt/container/at_optional.hpp>
#include <fcppt/container/find_opt.hpp>
#include <fcppt/container/maybe_back.hpp>
#include <fcppt/container/maybe_front.hpp>
#include <fcppt/container/pop_back.hpp>
#include <fcppt/container/pop_front.hpp>
#include <fcppt/enum/from_string.hpp>
#include <fcppt/enum/to_string.hpp>
#include <fcppt/enum/to_string_impl_fwd.hpp>
#include <fcppt/extract_from_string.hpp>
#include <fcppt/filesystem/file_size.hpp>
#include <fcppt/narrow_locale.hpp>
#include <fcppt/optional_std_string.hpp>
#include <fcppt/widen_locale.hpp>
#include <fcppt/filesystem/remove_extension.hpp>
#include <fcppt/io/read_chars.hpp>
#include <fcppt/io/stream_to_string.hpp>
#include <fcppt/options/option_name.hpp>
#include <fcppt/options/option_name_set.hpp>
#include <fcppt/options/impl/is_flag.hpp>
#include <fcppt/options/impl/next_arg.hpp>
#include <fcppt/runtime_index.hpp>
#include <fcppt/tag.hpp>
#include <fcppt/extract_from_string_locale.hpp>
#include <fcppt/args_vector.hpp>

#include <sanitizer/asan_interface.h>
#include <sys/stat.h>
#include <sys/types.h>
#include <cstdio>
#include <cstring>
#include <deque>
#include <list>
#include <unordered_map>
#include <filesystem>
#include <fstream>
#include <limits>
#include <map>
#include <memory>
#include <sstream>
#include <string_view>

namespace c01
{
enum class color { foo, bar, baz, fo, foobar, fcppt_maximum = foobar };
}

namespace fcppt::enum_
{
template <>
struct to_string_impl<c01::color>
{
  static std::string_view get(c01::color const c)
  {
    switch (c)
    {
    case c01::color::foo: return "foo";
    case c01::color::bar: return "bar";
    case c01::color::baz: return "baz";
    case c01::color::fo: return "fo";
    case c01::color::foobar: return "foobar";
    }
    return "";
  }
};
}

namespace c01
{
struct base { virtual ~base() = default; };
struct d1 : base {};
struct d2 : base {};

std::vector<long long> ints(std::string const &s) { return vh::int_list(s); }

// a value as a string that lives on the heap (longer than the small-string buffer): reading it after its
// destruction is a use-after-free for ASan, which a trivially destructible element would not show
std::string long_string(long long v) { return std::to_string(v) + ":" + std::string(40, 'x'); }
long long long_value(std::string const &s)
{
  if (s.size() < 42 || s.compare(s.size() - 40, 40, std::string(40, 'x')) != 0)
    return -999;
  return std::stoll(s.substr(0, s.find(':')));
}
template <typename C>
std::string join_long(C const &c)
{
  std::vector<long long> v;
  for (auto const &e : c)
    v.push_back(long_value(e));
  return vh::join(v);
}
std::string optlong(fcppt::optional::object<std::string> const &o)
{
  return o.has_value() ? "some " + std::to_string(long_value(o.get_unsafe())) : std::string{"none"};
}

std::string payload(std::string const &tok) // "s:chars" or "x:hex"
{
  if (tok.size() >= 2 && tok[0] == 'x' && tok[1] == ':')
  {
    std::string r;
    for (std::size_t i = 2; i + 1 < tok.size(); i += 2)
      r.push_back(static_cast<char>(std::stoi(tok.substr(i, 2), nullptr, 16)));
    return r;
  }
  return tok.substr(2);
}

std::string hex_payload(std::string const &s);

// a string result: `s:<text>` when it consists of printable non-blank ASCII, `x:<hex>` otherwise
std::string out_str(std::string const &s)
{
  for (unsigned char c : s)
    if (c < 0x21 || c > 0x7e)
      return hex_payload(s);
  return "s:" + s;
}

std::string hex_payload(std::string const &s)
{
  static char const digits[] = "0123456789abcdef";
  std::string r{"x:"};
  for (unsigned char c : s)
  {
    r.push_back(digits[c >> 4]);
    r.push_back(digits[c & 15]);
  }
  return r;
}

// exact-size heap copy: no terminating zero, ASan redzone right behind the last character
struct exact
{
  // n characters followed by 16 bytes of '#' that are poisoned for ASan: an instrumented read behind the view is
  // reported, an uninstrumented one (inside libc: getenv, strlen, fopen …) sees garbage instead of a lucky NUL
  static constexpr std::size_t slack = 16;
  std::unique_ptr<char[]> mem;
  std::size_t n;
  explicit exact(std::string const &s) : mem(new char[s.size() + slack]), n(s.size())
  {
    std::memcpy(mem.get(), s.data(), s.size());
    std::memset(mem.get() + n, '#', slack);
    ASAN_POISON_MEMORY_REGION(mem.get() + n, slack);
  }
  exact(exact const &) = delete;
  exact &operator=(exact const &) = delete;
  ~exact() { ASAN_UNPOISON_MEMORY_REGION(mem.get() + n, slack); }
  std::string_view view() const { return s_view(); }
  std::string_view s_view() const { return std::string_view{mem.get(), n}; }
};

template <typename T>
std::string opt(fcppt::optional::object<T> const &o)
{
  return o.has_value() ? "some " + std::to_string(o.get_unsafe()) : std::string{"none"};
}

template <typename T>
std::string optref(fcppt::optional::reference<T> const &o)
{
  return o.has_value() ? "some " + std::to_string(o.get_unsafe().get()) : std::string{"none"};
}

std::vector<std::string> split(std::string const &s, char sep)
{
  std::vector<std::string> r;
  if (s == "_")
    return r;
  if (s == "__") // the list holding one empty string (would be an empty token on the line)
  {
    r.emplace_back();
    return r;
  }
  std::size_t pos = 0;
  while (true)
  {
    std::size_t const next = s.find(sep, pos);
    r.push_back(s.substr(pos, next == std::string::npos ? next : next - pos));
    if (next == std::string::npos)
      break;
    pos = next + 1;
  }
  return r;
}

std::filesystem::path scratch;

void make_scratch()
{
  char tmpl[] = "/tmp/verif_c01_XXXXXX";
  char *d = mkdtemp(tmpl);
  scratch = d ? d : "/tmp";
  { std::ofstream f(scratch / "file0"); }
  { std::ofstream f(scratch / "file5"); f << "12345"; }
  { std::ofstream f(scratch / "file4096"); f << std::string(4096, 'x'); }
  std::filesystem::create_directory(scratch / "dir");
  std::error_code ec;
  { std::ofstream f(scratch / "sparse5g"); }
  std::filesystem::resize_file(scratch / "sparse5g", 5368709120ULL, ec);                       // a hole: larger than 2^32, no blocks
  ec.clear();
  std::filesystem::create_symlink(scratch / "nowhere", scratch / "dangling", ec);
  std::filesystem::create_symlink(scratch / "file5", scratch / "symfile", ec);
  // paths on which stat() itself fails with something other than "not found"
  std::filesystem::create_symlink(scratch / "selfloop", scratch / "selfloop", ec);            // ELOOP
  std::filesystem::create_symlink(scratch / "loopb", scratch / "loopa", ec);                  // ELOOP through a cycle of two
  std::filesystem::create_symlink(scratch / "loopa", scratch / "loopb", ec);
  std::filesystem::create_directory_symlink(scratch / "dir", scratch / "symdir", ec);         // a link to a directory
  std::filesystem::create_symlink(scratch / "symfile", scratch / "symsym", ec);               // link -> link -> file5
  (void)::mkfifo((scratch / "fifo").c_str(), 0600);                                           // exists, not a regular file
  // a file whose name has a blank, a newline and bytes that are not UTF-8
  { std::ofstream f(scratch / "we ird\n\xff\xfe"); f << "1234567"; }
  // relative paths are resolved against the scratch directory
  if (::chdir(scratch.c_str()) != 0) {}
  // a directory with two files, a sub-directory holding one file, and a dangling link
  std::filesystem::create_directory(scratch / "dir2");
  { std::ofstream f(scratch / "dir2" / "a"); f << "a"; }
  { std::ofstream f(scratch / "dir2" / "b.txt"); f << "bb"; }
  std::filesystem::create_directory(scratch / "dir2" / "sub");
  { std::ofstream f(scratch / "dir2" / "sub" / "c"); f << "ccc"; }
  std::filesystem::create_symlink(scratch / "nowhere", scratch / "dir2" / "dang", ec);
}

void remove_scratch()
{
  std::error_code ec;
  if (scratch != "/tmp" && !scratch.empty())
    std::filesystem::remove_all(scratch, ec);
}

}
#include "c01_env.cpp"
namespace c01
{
// narrow_locale / widen_locale through the real codecvt loop in C.utf8 (total: a value or the documented failure, never a
// write behind the conversion buffer); the same line as C15's `nw`, exact-size input buffers
std::string nw_hex(std::string const &s)
{
  if (s.empty())
    return "-";
  static char const *const d = "0123456789abcdef";
  std::string r;
  for (unsigned char c : s)
  {
    r += d[c >> 4];
    r += d[c & 15];
  }
  return r;
}

std::string nw_line(std::string const &whex)
{
  auto const hv = [](char c) -> int { return c >= '0' && c <= '9' ? c - '0' : c >= 'a' && c <= 'f' ? c - 'a' + 10 : -1; };
  std::wstring ws;
  if (whex != "-")
  {
    if (whex.size() % 8 != 0)
      return "bad-op";
    for (std::size_t i = 0; i < whex.size(); i += 8)
    {
      std::uint32_t u = 0;
      for (std::size_t k = 0; k < 8; ++k)
      {
        if (hv(whex[i + k]) < 0)
          return "bad-op";
        u = (u << 4) | static_cast<std::uint32_t>(hv(whex[i + k]));
      }
      ws += static_cast<wchar_t>(u);
    }
  }
  static std::locale const loc{"C.utf8"};
  std::unique_ptr<wchar_t[]> const wb{new wchar_t[ws.size()]};
  for (std::size_t i = 0; i < ws.size(); ++i)
    wb[i] = ws[i];
  fcppt::optional_std_string const n{fcppt::narrow_locale(std::wstring_view{wb.get(), ws.size()}, loc)};
  if (!n.has_value())
    return "n=none w=-";
  std::string const &ns{n.get_unsafe()};
  std::unique_ptr<char[]> const nb{new char[ns.size()]};
  for (std::size_t i = 0; i < ns.size(); ++i)
    nb[i] = ns[i];
  std::string w;
  try
  {
    std::wstring const back{fcppt::widen_locale(std::string_view{nb.get(), ns.size()}, loc)};
    std::string bytes;
    for (wchar_t const c : back)
    {
      std::uint32_t const u{static_cast<std::uint32_t>(c)};
      bytes += static_cast<char>(u >> 24);
      bytes += static_cast<char>((u >> 16) & 0xFF);
      bytes += static_cast<char>((u >> 8) & 0xFF);
      bytes += static_cast<char>(u & 0xFF);
    }
    w = "some " + nw_hex(bytes);
  }
  catch (std::runtime_error const &)
  {
    w = "exc";
  }
  return "n=some " + nw_hex(ns) + " w=" + w;
}

std::string handle1(std::vector<std::string> const &t)
{
  std::string const &op = t[0];
  if (op == "nw" && t.size() == 2)
    return nw_line(t[1]);
  if (auto r = handle_env(t))
    return *r;
  if (op == "atopt" && t.size() == 3)
  {
    auto const v0 = ints(t[1]);
    std::vector<long long> v(v0.begin(), v0.end());
    std::deque<long long> d(v0.begin(), v0.end());
    auto const i = static_cast<std::size_t>(vh::to_ull(t[2]));
    std::string const r1 = optref(fcppt::container::at_optional(v, i));
    std::string const r2 = optref(fcppt::container::at_optional(d, i));
    {
      // the result refers to the element inside the container (no copy): writing through it changes the container
      auto const ra = fcppt::container::at_optional(v, i);
      if (ra.has_value() && (i >= v.size() || &ra.get_unsafe().get() != &v[i]))
        return "ref-identity-fail";
      auto const rd = fcppt::container::at_optional(d, i);
      if (rd.has_value() && (i >= d.size() || &rd.get_unsafe().get() != &d[i]))
        return "ref-identity-fail";
    }
    std::vector<long long> const &cv = v;
    std::string const r3 = optref(fcppt::container::at_optional(cv, i));
    // a std::string (characters '0' + value) and a vector of heap strings
    std::string str;
    std::vector<std::string> vs;
    for (auto const e : v0)
    {
      str.push_back(static_cast<char>('0' + e));
      vs.push_back(long_string(e));
    }
    vs.shrink_to_fit();
    auto const rs = fcppt::container::at_optional(str, i);
    std::string const r4 = rs.has_value() ? "some " + std::to_string(rs.get_unsafe().get() - '0') : std::string{"none"};
    auto const rv = fcppt::container::at_optional(vs, i);
    std::string const r5 = rv.has_value() ? "some " + std::to_string(long_value(rv.get_unsafe().get())) : std::string{"none"};
    return r1 == r2 && r1 == r3 && r1 == r4 && r1 == r5 ? r1 : "containers-disagree " + r1 + " / " + r2 + " / " + r3 + " / " + r4 + " / " + r5;
  }
  if ((op == "front" || op == "back") && t.size() == 2)
  {
    auto const v0 = ints(t[1]);
    std::vector<long long> v(v0.begin(), v0.end());
    std::deque<long long> d(v0.begin(), v0.end());
    std::string const r1 = optref(op == "front" ? fcppt::container::maybe_front(v) : fcppt::container::maybe_back(v));
    std::string const r2 = optref(op == "front" ? fcppt::container::maybe_front(d) : fcppt::container::maybe_back(d));
    {
      auto const rv = op == "front" ? fcppt::container::maybe_front(v) : fcppt::container::maybe_back(v);
      if (rv.has_value() && (v.empty() || &rv.get_unsafe().get() != (op == "front" ? &v.front() : &v.back())))
        return "ref-identity-fail";
      auto const rd = op == "front" ? fcppt::container::maybe_front(d) : fcppt::container::maybe_back(d);
      if (rd.has_value() && (d.empty() || &rd.get_unsafe().get() != (op == "front" ? &d.front() : &d.back())))
        return "ref-identity-fail";
    }
    std::list<std::string> ls;
    for (auto const e : v0)
      ls.push_back(long_string(e));
    std::list<std::string> const &cls = ls;
    auto const rl = op == "front" ? fcppt::container::maybe_front(cls) : fcppt::container::maybe_back(cls);
    std::string const r3 = rl.has_value() ? "some " + std::to_string(long_value(rl.get_unsafe().get())) : std::string{"none"};
    return r1 == r2 && r1 == r3 ? r1 : "containers-disagree";
  }
  if (op == "popback" && t.size() == 2)
  {
    auto const v0 = ints(t[1]);
    std::vector<long long> v(v0.begin(), v0.end());
    std::deque<long long> d(v0.begin(), v0.end());
    std::string const p1 = opt(fcppt::container::pop_back(v));
    std::string const r1 = p1 + " rest=" + vh::join(v);
    std::string const p2 = opt(fcppt::container::pop_back(d));
    std::string const r2 = p2 + " rest=" + vh::join(d);
    std::vector<std::string> vs;
    std::deque<std::string> ds;
    std::list<std::string> ls;
    for (auto const e : v0)
    {
      vs.push_back(long_string(e));
      ds.push_back(long_string(e));
      ls.push_back(long_string(e));
    }
    {
      std::string str;
      for (auto const e : v0)
        str.push_back(static_cast<char>('0' + e));
      auto const ps = fcppt::container::pop_back(str);
      std::string const rs = (ps.has_value() ? "some " + std::to_string(ps.get_unsafe() - '0') : std::string{"none"}) + " rest=" + vh::join(std::vector<long long>(v.begin(), v.end()));
      if (rs != r1 || str.size() != v.size())
        return "containers-disagree-string " + r1 + " / " + rs;
    }
    std::string const p3 = optlong(fcppt::container::pop_back(vs));
    std::string const r3 = p3 + " rest=" + join_long(vs);
    std::string const p4 = optlong(fcppt::container::pop_back(ds));
    std::string const r4 = p4 + " rest=" + join_long(ds);
    std::string const p5 = optlong(fcppt::container::pop_back(ls));
    std::string const r5 = p5 + " rest=" + join_long(ls);
    return r1 == r2 && r1 == r3 && r1 == r4 && r1 == r5 ? r1 : "containers-disagree " + r1 + " / " + r2 + " / " + r3 + " / " + r4 + " / " + r5;
  }
  if (op == "popfront" && t.size() == 2)
  {
    auto const v0 = ints(t[1]);
    std::deque<long long> d(v0.begin(), v0.end());
    std::string const p1 = opt(fcppt::container::pop_front(d));
    std::string const r1 = p1 + " rest=" + vh::join(d);
    std::deque<std::string> ds;
    std::list<std::string> ls;
    for (auto const e : v0)
    {
      ds.push_back(long_string(e));
      ls.push_back(long_string(e));
    }
    std::string const p2 = optlong(fcppt::container::pop_front(ds));
    std::string const r2 = p2 + " rest=" + join_long(ds);
    std::string const p3 = optlong(fcppt::container::pop_front(ls));
    std::string const r3 = p3 + " rest=" + join_long(ls);
    return r1 == r2 && r1 == r3 ? r1 : "containers-disagree " + r1 + " / " + r2 + " / " + r3;
  }
  if (op == "findopt" && t.size() == 3)
  {
    std::map<long long, long long> m;
    for (auto const &kv : split(t[1], ','))
    {
      auto const c = kv.find(':');
      m.emplace(std::stoll(kv.substr(0, c)), std::stoll(kv.substr(c + 1))); // first occurrence wins, like the model
    }
    long long const key = std::stoll(t[2]);
    auto const r = fcppt::container::find_opt(m, key);
    std::string const r1 = r.has_value() ? "some " + std::to_string(r.get_unsafe().get().second) : std::string{"none"};
    std::map<long long, long long> const &cm = m;
    auto const rc = fcppt::container::find_opt(cm, key);
    std::string const r2 = rc.has_value() ? "some " + std::to_string(rc.get_unsafe().get().second) : std::string{"none"};
    auto const rm = fcppt::container::find_opt_mapped(m, key);
    std::string const r3 = rm.has_value() ? "some " + std::to_string(rm.get_unsafe().get()) : std::string{"none"};
    auto const ri = fcppt::container::find_opt_iterator(m, key);
    std::string const r4 = ri.has_value() ? (ri.get_unsafe() == m.end() ? std::string{"end-iterator"} : "some " + std::to_string(ri.get_unsafe()->second)) : std::string{"none"};
    std::unordered_map<long long, long long> um(m.begin(), m.end());
    auto const ru = fcppt::container::find_opt_mapped(um, key);
    std::string const r5 = ru.has_value() ? "some " + std::to_string(ru.get_unsafe().get()) : std::string{"none"};
    std::map<std::string, std::string> sm;
    for (auto const &kv : m)
      sm.emplace(long_string(kv.first), long_string(kv.second));
    auto const rs = fcppt::container::find_opt_mapped(sm, long_string(key));
    std::string const r6 = rs.has_value() ? "some " + std::to_string(long_value(rs.get_unsafe().get())) : std::string{"none"};
    // aliasing: the key is a reference to the key stored in the container
    for (auto const &kv : sm)
    {
      auto const ra = fcppt::container::find_opt_mapped(sm, kv.first);
      if (!ra.has_value() || &ra.get_unsafe().get() != &kv.second)
        return "alias-fail";
    }
    for (auto const &kv : um)
    {
      auto const ra = fcppt::container::find_opt(um, kv.first);
      if (!ra.has_value() || &ra.get_unsafe().get() != &kv)
        return "alias-fail";
    }
    return r1 == r2 && r1 == r3 && r1 == r4 && r1 == r5 && r1 == r6 ? r1 : "containers-disagree " + r1 + " / " + r2 + " / " + r3 + " / " + r4 + " / " + r5 + " / " + r6;
  }
  if (op == "fromrange" && t.size() == 3)
  {
    auto const v0 = ints(t[2]);
    std::vector<long long> const v(v0.begin(), v0.end());
    auto show = [](auto const &o) {
      if (!o.has_value())
        return std::string{"none"};
      std::vector<long long> out;
      for (auto const &e : o.get_unsafe())
        out.push_back(e);
      return "some " + vh::join(out);
    };
    std::deque<long long> d(v0.begin(), v0.end());
    auto showl = [](auto const &o) {
      if (!o.has_value())
        return std::string{"none"};
      return "some " + join_long(o.get_unsafe());
    };
    auto rvalue_strings = [&v0] {
      std::vector<std::string> vs;
      for (auto const e : v0)
        vs.push_back(long_string(e));
      vs.shrink_to_fit();
      return vs;
    };
    auto all = [&]<std::size_t N>(std::integral_constant<std::size_t, N>) {
      std::string const r1 = show(fcppt::array::from_range<N>(v));
      std::string const r2 = show(fcppt::array::from_range<N>(d));
      std::string const r3 = showl(fcppt::array::from_range<N>(rvalue_strings()));
      return r1 == r2 && r1 == r3 ? r1 : "sources-disagree " + r1 + " / " + r2 + " / " + r3;
    };
    switch (vh::to_ull(t[1]))
    {
    case 0: return all(std::integral_constant<std::size_t, 0>{});
    case 1: return all(std::integral_constant<std::size_t, 1>{});
    case 2: return all(std::integral_constant<std::size_t, 2>{});
    case 3: return all(std::integral_constant<std::size_t, 3>{});
    case 4: return all(std::integral_constant<std::size_t, 4>{});
    default: return "bad-op";
    }
  }
  if (op == "rtindex" && t.size() == 4)
  {
    // rtindex <u8|u32|u64> <max> <index>
    unsigned long long const i64 = vh::to_ull(t[3]);
    std::string const &ty = t[1];
    if ((ty == "u8" && i64 > 255) || (ty == "u32" && i64 > 4294967295ULL) || (ty != "u8" && ty != "u32" && ty != "u64"))
      return "bad-op";
    auto run = [i64, &ty]<unsigned Max>(std::integral_constant<unsigned, Max>) {
      auto const f = [](auto const idx) { return "f " + std::to_string(decltype(idx)::value); };
      auto const fail = [] { return std::string{"fail"}; };
      if (ty == "u8")
        return fcppt::runtime_index<std::integral_constant<std::uint8_t, Max>>(static_cast<std::uint8_t>(i64), f, fail);
      if (ty == "u64")
        return fcppt::runtime_index<std::integral_constant<std::uint64_t, Max>>(static_cast<std::uint64_t>(i64), f, fail);
      return fcppt::runtime_index<std::integral_constant<unsigned, Max>>(static_cast<unsigned>(i64), f, fail);
    };
    switch (vh::to_ull(t[2]))
    {
    case 0: return run(std::integral_constant<unsigned, 0>{});
    case 1: return run(std::integral_constant<unsigned, 1>{});
    case 2: return run(std::integral_constant<unsigned, 2>{});
    case 3: return run(std::integral_constant<unsigned, 3>{});
    case 5: return run(std::integral_constant<unsigned, 5>{});
    default: return "bad-op";
    }
  }
  if (op == "enumfs" && t.size() == 2)
  {
    exact const e{payload(t[1])};
    auto const r = fcppt::enum_::from_string<color>(e.view());
    if (r.has_value())
    {
      // aliasing: the view of the stored name itself must be found again
      auto const again = fcppt::enum_::from_string<color>(fcppt::enum_::to_string(r.get_unsafe()));
      if (!again.has_value() || again.get_unsafe() != r.get_unsafe())
        return "alias-fail";
    }
    return r.has_value() ? "some " + std::to_string(static_cast<int>(r.get_unsafe())) : std::string{"none"};
  }
  if (op == "isflag" && t.size() == 2)
  {
    exact const e{payload(t[1])};
    auto const r = fcppt::options::impl::is_flag(e.view());
    if (!r.has_value())
      return "none";
    return std::string{r.get_unsafe().first.get() ? "short" : "long"} + " " + out_str(r.get_unsafe().second);
  }
  if (op == "nextarg" && t.size() == 3)
  {
    fcppt::args_vector const args{[&] {
      fcppt::args_vector a;
      for (auto const &s : split(t[1], ','))
        a.push_back(s);
      a.shrink_to_fit();
      return a;
    }()};
    fcppt::options::option_name_set names;
    for (auto const &n : split(t[2], ','))
    {
      auto const c = n.rfind(':');
      names.insert(fcppt::options::option_name{
          fcppt::string{n.substr(0, c)}, fcppt::options::option_name::is_short{n.substr(c + 1) == "s"}});
    }
    auto const r = fcppt::options::impl::next_arg(args, names);
    return r.has_value() ? "some " + std::to_string(r.get_unsafe() - args.begin()) : std::string{"none"};
  }
  if (op == "filesize" && t.size() == 2)
  {
    auto const r = fcppt::filesystem::file_size(path_of_kind(t[1]));
    return r.has_value() ? "some " + std::to_string(r.get_unsafe()) : std::string{"none"};
  }
  if ((op == "extract" || op == "extractg") && t.size() == 3)
  {
    // extract_from_string (locale = fcppt::insert_extract_locale(), which is the global locale) with the global locale
    // left classic, and extract_from_string_locale for the classic locale and for C.utf8 while the GLOBAL locale
    // groups digits: an implementation that forgets to imbue the locale it was given reads "1,000" as 1000.
    // `extractg` runs the default variant under the grouping global locale as well (see notes: DEFECT CANDIDATE).
    std::string const s = payload(t[2]);
    static std::locale const cutf8{"C.utf8"};
    bool const global_too = op == "extractg";
    auto run = [&s, global_too]<typename T>(fcppt::tag<T>) {
      auto show = [](fcppt::optional::object<T> const &o) {
        if (!o.has_value())
          return std::string{"none"};
        if constexpr (std::is_same_v<T, std::string>)
          return "some " + hex_payload(o.get_unsafe());
        else
          return "some " + std::to_string(o.get_unsafe());
      };
      std::string r1 = show(fcppt::extract_from_string<T>(s));
      hostile_locale_guard const guard{};
      std::string const r2 = show(fcppt::extract_from_string_locale<T>(s, std::locale::classic()));
      std::string const r3 = show(fcppt::extract_from_string_locale<T>(s, cutf8));
      if (global_too)
        r1 = show(fcppt::extract_from_string<T>(s));
      if constexpr (!std::is_same_v<T, std::string>)
      {
        bool ascii = true;
        for (unsigned char c : s)
          ascii = ascii && c < 0x80;
        if (ascii)
        {
          // the std::wstring instantiation
          std::string const r4 = show(fcppt::extract_from_string_locale<T>(std::wstring(s.begin(), s.end()), std::locale::classic()));
          if (r4 != r2)
            return "wide-disagrees " + r2 + " / " + r4;
        }
      }
      return r1 == r2 && r1 == r3 ? r1 : "locales-disagree " + r1 + " / " + r2 + " / " + r3;
    };
    if (t[1] == "int") return run(fcppt::tag<int>{});
    if (t[1] == "uint") return run(fcppt::tag<unsigned>{});
    if (t[1] == "short") return run(fcppt::tag<short>{});
    if (t[1] == "ulong") return run(fcppt::tag<unsigned long>{});
    if (t[1] == "long") return run(fcppt::tag<long>{});
    if (t[1] == "string") return run(fcppt::tag<std::string>{});
    if (t[1] == "float" || t[1] == "double")
    {
      auto run_float = [&s]<typename T>(fcppt::tag<T>) {
        auto show = [](fcppt::optional::object<T> const &o) {
          if (!o.has_value())
            return std::string{"none"};
          T const v = o.get_unsafe();
          return std::string{"some "} + (v != v ? "nan" : v == std::numeric_limits<T>::infinity() || v == -std::numeric_limits<T>::infinity() ? "inf" : v == T{0} ? "zero" : "finite");
        };
        std::string const r1 = show(fcppt::extract_from_string<T>(s));
        hostile_locale_guard const guard{};
        std::string const r2 = show(fcppt::extract_from_string_locale<T>(s, std::locale::classic()));
        return r1 == r2 ? r1 : "locales-disagree " + r1 + " / " + r2;
      };
      return t[1] == "float" ? run_float(fcppt::tag<float>{}) : run_float(fcppt::tag<double>{});
    }
    if (t[1] == "char" || t[1] == "uchar" || t[1] == "schar")
    {
      auto run_char = [&s]<typename T>(fcppt::tag<T>) {
        auto show = [](fcppt::optional::object<T> const &o) { return o.has_value() ? "some " + std::to_string(static_cast<int>(o.get_unsafe())) : std::string{"none"}; };
        std::string const r1 = show(fcppt::extract_from_string<T>(s));
        hostile_locale_guard const guard{};
        std::string const r2 = show(fcppt::extract_from_string_locale<T>(s, std::locale::classic()));
        return r1 == r2 ? r1 : "locales-disagree " + r1 + " / " + r2;
      };
      if (t[1] == "char") return run_char(fcppt::tag<char>{});
      if (t[1] == "uchar") return run_char(fcppt::tag<unsigned char>{});
      return run_char(fcppt::tag<signed char>{});
    }
    return "bad-op";
  }
  return handle(t); // scalar tables of C06
}

std::string guarded(std::vector<std::string> const &t)
{
  if (t.empty())
    return "bad-op";
  try
  {
    return handle1(t);
  }
  catch (std::filesystem::filesystem_error const &)
  {
    return "exc:filesystem_error";
  }
  catch (std::ios_base::failure const &)
  {
    return "exc:ios_failure";
  }
  catch (std::bad_alloc const &)
  {
    return "exc:bad_alloc";
  }
  catch (std::exception const &)
  {
    return "exc:std";
  }
  catch (...)
  {
    return "exc:unknown";
  }
}
}

int main()
{
  init();
  c01::prepare_env();
  c01::make_scratch();
  vh::op_budget() = 60;
  int const rc = vh::run(c01::guarded);
  c01::remove_scratch();
  return rc;
}
