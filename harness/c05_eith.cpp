// C05 correspondence harness, family unit `eith` (see harness/c05_common.hpp and harness/c05.cpp)
#include "c05_common.hpp"

#include <fcppt/function_impl.hpp>
#include <fcppt/move_if_rvalue.hpp>
#include <fcppt/either/apply.hpp>
#include <fcppt/either/construct.hpp>
#include <fcppt/either/error.hpp>
#include <fcppt/either/error_from_optional.hpp>
#include <fcppt/either/loop.hpp>
#include <fcppt/either/make_failure.hpp>
#include <fcppt/either/make_success.hpp>
#include <fcppt/either/no_error.hpp>
#include <fcppt/either/sequence_error.hpp>
#include <fcppt/either/to_exception.hpp>
#include <fcppt/either/try_call.hpp>
#include <fcppt/either/bind.hpp>
#include <fcppt/either/failure_opt.hpp>
#include <fcppt/either/first_success.hpp>
#include <fcppt/either/from_optional.hpp>
#include <fcppt/either/join.hpp>
#include <fcppt/either/map.hpp>
#include <fcppt/either/map_failure.hpp>
#include <fcppt/either/match.hpp>
#include <fcppt/either/object.hpp>
#include <fcppt/either/sequence.hpp>
#include <fcppt/either/success_opt.hpp>
#include <fcppt/variant/apply.hpp>
#include <fcppt/variant/match.hpp>
#include <fcppt/variant/object.hpp>
#include <fcppt/variant/to_optional.hpp>

namespace c05
{
namespace
{
// ---------------------------------------------------------------- either

template <typename T>
struct fail
{
  T t;
  int read() const { return t.read(); }
  fail derive(int const _k) const { return fail{t.derive(_k)}; }
};

template <typename T>
using eith = fcppt::either::object<fail<T>, T>;

template <typename T>
eith<T> mk_eith(int const _id, int const _side)
{
  need(_side == 0 || _side == 1);
  return _side == 1 ? eith<T>{T{_id}} : eith<T>{fail<T>{T{_id}}};
}

template <typename T>
void mark(eith<T> &_e)
{
  if (_e.has_success())
    mark(_e.get_success_unsafe());
  else
    mark(_e.get_failure_unsafe().t);
}

template <typename T>
T const &eith_tok(eith<T> const &_e)
{
  return _e.has_success() ? _e.get_success_unsafe() : _e.get_failure_unsafe().t;
}

template <typename T>
std::string eith_slots(eith<T> const &_e)
{
  slots_t s;
  s.add(eith_tok(_e));
  return s.str();
}

template <typename T>
std::string eith_tag(eith<T> const &_e)
{
  return _e.has_success() ? "S" : "F";
}

template <typename T>
std::string op_eith1(std::string const &_op, line_t const &L)
{
  need(L.args.size() == 1 && L.n(0) == 1 && !L.par.empty());
  int const side{L.par[0]};
  auto e{mk_eith<T>(L.args[0].ids[0], side)};
  mark(e);
  g_log.clear();
  if (_op == "eithmap" || _op == "eithmapfail" || _op == "eithbind" || _op == "eithjoinflat")
  {
    int const fside{_op == "eithbind" ? (need(L.par.size() == 2), L.par[1]) : (need(L.par.size() == 1), 0)};
    need(fside == 0 || fside == 1);
    eith<T> const r{with_cat<T::copyable>(
        L.cat(0),
        e,
        [&](auto &&x)
        {
          if (_op == "eithmap")
            return fcppt::either::map(FWD(x), thru{});
          if (_op == "eithmapfail")
            return fcppt::either::map_failure(FWD(x), thru{});
          return fcppt::either::bind(
              FWD(x),
              [fside](auto &&v)
              {
                return fside == 1 ? eith<T>{thru{}(FWD(v))} : eith<T>{fail<T>{thru{}(FWD(v))}};
              });
        })};
    event_log const log{g_log};
    return finish(eith_tag(r), eith_slots(r), {eith_slots(e)}, log);
  }
  if (_op == "eithmatch")
  {
    need(L.par.size() == 1);
    slots_t sr;
    T const r{with_cat<true>(L.cat(0), e, [](auto &&x) { return fcppt::either::match(FWD(x), to_tok{}, to_tok{}); })};
    event_log const log{g_log};
    sr.add(r);
    return finish("-", sr.str(), {eith_slots(e)}, log);
  }
  if (_op == "eithsuccopt")
  {
    need(L.par.size() == 1);
    opt<T> const r{with_cat<T::copyable>(L.cat(0), e, [](auto &&x) { return fcppt::either::success_opt(FWD(x)); })};
    event_log const log{g_log};
    return finish(opt_tag(r), opt_slots(r), {eith_slots(e)}, log);
  }
  if (_op == "eithfailopt")
  {
    need(L.par.size() == 1);
    opt<fail<T>> const r{with_cat<T::copyable>(L.cat(0), e, [](auto &&x) { return fcppt::either::failure_opt(FWD(x)); })};
    event_log const log{g_log};
    slots_t sr;
    if (r.has_value())
      sr.add(r.get_unsafe().t);
    return finish(opt_tag(r), sr.str(), {eith_slots(e)}, log);
  }
  throw bad_op{};
}

template <typename T>
std::string op_eithfromopt(line_t const &L)
{
  need(L.args.size() == 1 && L.par.empty());
  auto o{mk_opt<T>(L.args[0])};
  mark(o);
  g_log.clear();
  eith<T> const r{with_cat<T::copyable>(
      L.cat(0), o, [](auto &&x) { return fcppt::either::from_optional(FWD(x), [] { return fail<T>{T{1000}}; }); })};
  event_log const log{g_log};
  return finish(eith_tag(r), eith_slots(r), {opt_slots(o)}, log);
}

template <typename T>
std::string op_eithjoin(line_t const &L)
{
  // par[0]: 0 = F x, 1 = S (F x), 2 = S (S x)
  need(L.args.size() == 1 && L.n(0) == 1 && L.par.size() == 1 && L.par[0] >= 0 && L.par[0] <= 2);
  using outer = fcppt::either::object<fail<T>, eith<T>>;
  int const id{L.args[0].ids[0]};
  outer e{L.par[0] == 0 ? outer{fail<T>{T{id}}} : outer{mk_eith<T>(id, L.par[0] - 1)}};
  auto const tok{[](outer &_o) -> T & { return _o.has_failure() ? _o.get_failure_unsafe().t : const_cast<T &>(eith_tok(_o.get_success_unsafe())); }};
  mark(tok(e));
  g_log.clear();
  eith<T> const r{with_cat<T::copyable>(L.cat(0), e, [](auto &&x) { return fcppt::either::join(FWD(x)); })};
  event_log const log{g_log};
  slots_t sa;
  sa.add(tok(e));
  return finish(eith_tag(r), eith_slots(r), {sa.str()}, log);
}

template <typename T>
std::string op_eithapply2(line_t const &L)
{
  need(L.args.size() == 2 && L.n(0) == 1 && L.n(1) == 1 && L.par.size() == 2);
  auto a{mk_eith<T>(L.args[0].ids[0], L.par[0])};
  auto b{mk_eith<T>(L.args[1].ids[0], L.par[1])};
  mark(a);
  mark(b);
  g_log.clear();
  fcppt::either::object<fail<T>, pair2<T>> const r{with_cat<T::copyable>(
      L.cat(0),
      a,
      [&](auto &&x)
      { return with_cat<T::copyable>(L.cat(1), b, [&](auto &&y) { return fcppt::either::apply(both{}, FWD(x), FWD(y)); }); })};
  event_log const log{g_log};
  slots_t sr;
  if (r.has_success())
    add_pair(sr, r.get_success_unsafe());
  else
    sr.add(r.get_failure_unsafe().t);
  return finish(r.has_success() ? "S" : "F", sr.str(), {eith_slots(a), eith_slots(b)}, log);
}

template <typename T>
std::string op_eithseq(line_t const &L)
{
  need(L.args.size() == 1 && L.par.size() == L.n(0));
  std::vector<eith<T>> v;
  v.reserve(32);
  for (std::size_t i = 0; i < L.n(0); ++i)
    v.push_back(mk_eith<T>(L.args[0].ids[i], L.par[i]));
  for (auto &e : v)
    mark(e);
  g_log.clear();
  using res_t = fcppt::either::object<fail<T>, std::vector<T>>;
  // only the rvalue instantiation exists: the requires-clause of either::sequence applies value_type to `Source` with its reference
  need(L.cat(0) == 'r');
  res_t const r{fcppt::either::sequence<std::vector<T>>(std::move(v))};
  event_log const log{g_log};
  slots_t sa, sr;
  for (auto const &e : v)
    sa.add(eith_tok(e));
  if (r.has_success())
    sr.add_range(r.get_success_unsafe());
  else
    sr.add(r.get_failure_unsafe().t);
  return finish(r.has_success() ? "S" : "F", sr.str(), {sa.str()}, log);
}

template <typename T>
std::string op_eithfirst(line_t const &L)
{
  need(L.args.empty());
  std::vector<fcppt::function<eith<T>()>> fs;
  int k{0};
  for (int const m : L.par)
  {
    need(m == 0 || m == 1);
    int const id{1000 + k++};
    fs.push_back(fcppt::function<eith<T>()>{[m, id] { return mk_eith<T>(id, m); }});
  }
  g_log.clear();
  auto const r{fcppt::either::first_success(fs)};
  event_log const log{g_log};
  slots_t sr;
  if (r.has_success())
    sr.add(r.get_success_unsafe());
  else
    for (auto const &f : r.get_failure_unsafe())
      sr.add(f.t);
  return finish(r.has_success() ? "S" : "F", sr.str(), {}, log);
}

// ---------------------------------------------------------------- variant

template <typename T>
struct w1
{
  T t;
  int read() const { return t.read(); }
};
template <typename T>
struct w2
{
  T t;
  int read() const { return t.read(); }
};

template <typename T>
using var3 = fcppt::variant::object<T, w1<T>, w2<T>>;

template <typename T>
var3<T> mk_var(int const _id, int const _alt)
{
  need(_alt >= 0 && _alt <= 2);
  return _alt == 0 ? var3<T>{T{_id}} : _alt == 1 ? var3<T>{w1<T>{T{_id}}} : var3<T>{w2<T>{T{_id}}};
}

template <typename T>
T &var_tok(var3<T> &_v)
{
  return fcppt::variant::match(
      _v, [](T &t) -> T & { return t; }, [](w1<T> &w) -> T & { return w.t; }, [](w2<T> &w) -> T & { return w.t; });
}

template <typename T>
std::string var_slots(var3<T> &_v)
{
  slots_t s;
  s.add(var_tok(_v));
  return s.str();
}

template <typename T>
std::string op_var(std::string const &_op, line_t const &L)
{
  need(L.args.size() >= 1 && L.n(0) == 1 && !L.par.empty());
  auto v{mk_var<T>(L.args[0].ids[0], L.par[0])};
  mark(var_tok(v));
  if (_op == "varmatch" || _op == "varapply")
  {
    need(L.args.size() == 1 && L.par.size() == 1);
    g_log.clear();
    T const r{with_cat<true>(
        L.cat(0),
        v,
        [&](auto &&x)
        {
          if (_op == "varmatch")
            return fcppt::variant::match(FWD(x), to_tok{}, to_tok{}, to_tok{});
          return fcppt::variant::apply(to_tok{}, FWD(x));
        })};
    event_log const log{g_log};
    slots_t sr;
    sr.add(r);
    return finish("-", sr.str(), {var_slots(v)}, log);
  }
  if (_op == "varapply2")
  {
    need(L.args.size() == 2 && L.n(1) == 1 && L.par.size() == 2);
    auto u{mk_var<T>(L.args[1].ids[0], L.par[1])};
    mark(var_tok(u));
    g_log.clear();
    pair2<T> const r{with_cat<true>(
        L.cat(0),
        v,
        [&](auto &&x) { return with_cat<true>(L.cat(1), u, [&](auto &&y) { return fcppt::variant::apply(both{}, FWD(x), FWD(y)); }); })};
    event_log const log{g_log};
    slots_t sr;
    add_pair(sr, r);
    return finish("-", sr.str(), {var_slots(v), var_slots(u)}, log);
  }
  if (_op == "vartoopt")
  {
    // par[1]: the alternative asked for (0 = T, 1 = w1<T>)
    need(L.args.size() == 1 && L.par.size() == 2 && (L.par[1] == 0 || L.par[1] == 1));
    g_log.clear();
    slots_t sr;
    std::string tag;
    event_log log;
    if (L.par[1] == 0)
    {
      opt<T> const r{with_cat<T::copyable>(L.cat(0), v, [](auto &&x) { return fcppt::variant::to_optional<T>(FWD(x)); })};
      log = g_log;
      if (r.has_value())
        sr.add(r.get_unsafe());
      tag = opt_tag(r);
    }
    else
    {
      opt<w1<T>> const r{with_cat<T::copyable>(L.cat(0), v, [](auto &&x) { return fcppt::variant::to_optional<w1<T>>(FWD(x)); })};
      log = g_log;
      if (r.has_value())
        sr.add(r.get_unsafe().t);
      tag = opt_tag(r);
    }
    return finish(tag, sr.str(), {var_slots(v)}, log);
  }
  throw bad_op{};
}

// ---------------------------------------------------------------- either: constructors, construct, try_call, to_exception, ...

template <typename T>
struct exc_with
{
  T t;
};

template <typename T>
std::string op_eith_more(std::string const &_op, line_t const &L)
{
  if (_op == "eithmakesucc" || _op == "eithmakefail" || _op == "eithctor")
  {
    need(L.args.size() == 1 && L.n(0) == 1);
    int const side{_op == "eithmakesucc" ? 1 : _op == "eithmakefail" ? 0 : (need(L.par.size() == 1), L.par[0])};
    need((side == 0 || side == 1) && (_op == "eithctor" || L.par.empty()));
    T x{L.args[0].ids[0]};
    fail<T> f{T{L.args[0].ids[0]}};
    mark(x);
    mark(f.t);
    g_log.clear();
    eith<T> const r{
        side == 1 ? with_cat<T::copyable>(
                        L.cat(0),
                        x,
                        [&](auto &&v)
                        {
                          if (_op == "eithctor")
                            return eith<T>{FWD(v)};
                          return fcppt::either::make_success<fail<T>>(FWD(v));
                        })
                  : with_cat<T::copyable>(
                        L.cat(0),
                        f,
                        [&](auto &&v)
                        {
                          if (_op == "eithctor")
                            return eith<T>{FWD(v)};
                          return fcppt::either::make_failure<T>(FWD(v));
                        })};
    event_log const log{g_log};
    slots_t sx;
    sx.add(side == 1 ? x : f.t);
    return finish(eith_tag(r), eith_slots(r), {sx.str()}, log);
  }
  if (_op == "eithconstruct" || _op == "eithtrycall")
  {
    need(L.args.empty() && L.par.size() == 1 && (L.par[0] == 0 || L.par[0] == 1));
    bool const ok{L.par[0] == 1};
    g_log.clear();
    eith<T> const r{
        _op == "eithconstruct"
            ? fcppt::either::construct(
                  ok, [] { return T{1000}; }, [] { return fail<T>{T{1001}}; })
            : fcppt::either::try_call<std::runtime_error>(
                  [ok]
                  {
                    if (!ok)
                      throw std::runtime_error{"no"};
                    return T{1000};
                  },
                  [](std::runtime_error const &) { return fail<T>{T{1001}}; })};
    event_log const log{g_log};
    return finish(eith_tag(r), eith_slots(r), {}, log);
  }
  if (_op == "eithtoexc")
  {
    need(L.args.size() == 1 && L.n(0) == 1 && L.par.size() == 1);
    auto e{mk_eith<T>(L.args[0].ids[0], L.par[0])};
    mark(e);
    g_log.clear();
    try
    {
      T const r{with_cat<T::copyable>(
          L.cat(0), e, [](auto &&x) { return fcppt::either::to_exception(FWD(x), [](auto &&f) { return exc_with<T>{to_tok{}(FWD(f))}; }); })};
      event_log const log{g_log};
      slots_t sr;
      sr.add(r);
      return finish("-", sr.str(), {eith_slots(e)}, log);
    }
    catch (exc_with<T> const &x)
    {
      event_log const log{g_log};
      slots_t sr;
      sr.add(x.t);
      return finish("exc", sr.str(), {eith_slots(e)}, log);
    }
  }
  if (_op == "eitherrfromopt")
  {
    need(L.args.size() == 1 && L.par.empty());
    auto o{mk_opt<T>(L.args[0])};
    mark(o);
    g_log.clear();
    fcppt::either::error<T> const r{with_cat<T::copyable>(L.cat(0), o, [](auto &&x) { return fcppt::either::error_from_optional(FWD(x)); })};
    event_log const log{g_log};
    slots_t sr;
    if (r.has_failure())
      sr.add(r.get_failure_unsafe());
    return finish(r.has_failure() ? "J" : "N", sr.str(), {opt_slots(o)}, log);
  }
  if (_op == "eithseqerr")
  {
    need(L.args.size() == 1 && L.par.size() == L.n(0));
    auto v{mk_vec<T>(L.args[0])};
    mark(v);
    std::size_t idx{0};
    g_log.clear();
    using err = fcppt::either::error<fail<T>>;
    err const r{with_cat<true>(
        L.cat(0),
        v,
        [&](auto &&c)
        {
          return fcppt::either::sequence_error(
              FWD(c),
              [&idx, &L](auto &&e) -> err
              {
                int const k{L.par.at(idx++)};
                need(k == 0 || k == 1);
                if (k == 1)
                {
                  ask(FWD(e));
                  return err{fcppt::either::no_error{}};
                }
                return err{fail<T>{thru{}(FWD(e))}};
              });
        })};
    event_log const log{g_log};
    slots_t sr;
    if (r.has_failure())
      sr.add(r.get_failure_unsafe().t);
    return finish(r.has_success() ? "S" : "F", sr.str(), {slots(v)}, log);
  }
  if (_op == "eithloop")
  {
    need(L.args.empty() && L.par.size() == 1 && L.par[0] >= 0 && L.par[0] <= 64);
    int const k{L.par[0]};
    int count{0};
    std::vector<T> sink;
    sink.reserve(80);
    g_log.clear();
    fail<T> const f{fcppt::either::loop(
        [&count, k]
        {
          int const id{1000 + count};
          return count++ < k ? eith<T>{T{id}} : eith<T>{fail<T>{T{id}}};
        },
        [&sink](T &&s) { sink.push_back(std::move(s)); })};
    event_log const log{g_log};
    slots_t sr;
    sr.add_range(sink);
    sr.add(f.t);
    return finish("-", sr.str(), {}, log);
  }
  if (_op == "varctor")
  {
    need(L.args.size() == 1 && L.n(0) == 1 && L.par.size() == 1 && L.par[0] >= 0 && L.par[0] <= 2);
    int const id{L.args[0].ids[0]};
    T x{id};
    w1<T> y{T{id}};
    w2<T> z{T{id}};
    mark(x);
    mark(y.t);
    mark(z.t);
    g_log.clear();
    auto const mk{[](auto &&v) { return var3<T>{FWD(v)}; }};
    var3<T> r{L.par[0] == 0   ? with_cat<T::copyable>(L.cat(0), x, mk)
              : L.par[0] == 1 ? with_cat<T::copyable>(L.cat(0), y, mk)
                              : with_cat<T::copyable>(L.cat(0), z, mk)};
    event_log const log{g_log};
    slots_t sx;
    sx.add(L.par[0] == 0 ? x : L.par[0] == 1 ? y.t : z.t);
    return finish("A" + std::to_string(r.type_index()), var_slots(r), {sx.str()}, log);
  }
  throw bad_op{};
}

template <typename T>
bool dispatch(std::string const &_op, line_t const &L, std::string &_out)
{
  if (_op == "eithmap")
    return (_out = op_eith1<T>(_op, L), true);
  if (_op == "eithmapfail")
    return (_out = op_eith1<T>(_op, L), true);
  if (_op == "eithbind")
    return (_out = op_eith1<T>(_op, L), true);
  if (_op == "eithmatch")
    return (_out = op_eith1<T>(_op, L), true);
  if (_op == "eithsuccopt")
    return (_out = op_eith1<T>(_op, L), true);
  if (_op == "eithfailopt")
    return (_out = op_eith1<T>(_op, L), true);
  if (_op == "eithfromopt")
    return (_out = op_eithfromopt<T>(L), true);
  if (_op == "eithjoin")
    return (_out = op_eithjoin<T>(L), true);
  if (_op == "eithapply2")
    return (_out = op_eithapply2<T>(L), true);
  if (_op == "eithseq")
    return (_out = op_eithseq<T>(L), true);
  if (_op == "eithfirst")
    return (_out = op_eithfirst<T>(L), true);
  if (_op == "eithmakesucc" || _op == "eithmakefail" || _op == "eithctor" || _op == "eithconstruct" || _op == "eithtrycall" ||
      _op == "eithtoexc" || _op == "eitherrfromopt" || _op == "eithseqerr" || _op == "eithloop" || _op == "varctor")
    return (_out = op_eith_more<T>(_op, L), true);
  if (_op == "varmatch")
    return (_out = op_var<T>(_op, L), true);
  if (_op == "varapply")
    return (_out = op_var<T>(_op, L), true);
  if (_op == "varapply2")
    return (_out = op_var<T>(_op, L), true);
  if (_op == "vartoopt")
    return (_out = op_var<T>(_op, L), true);
  return false;
}
}

C05_FAMILY(family_eith) { return C05_RUN(dispatch); }
}
